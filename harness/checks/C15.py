"""C15 — a WcMatch object can be killed, reset and re-run with prefix-exact results.

Proof part : Properties/C15.lean over Model/WcWalk.lean — for ALL trees / configurations / hook tables and
             ALL monotone poll oracles: prefix (FULL statement, every hook table), nothing but one more poll after
             the first observing poll, one path between two polls (`C15_paced`), routing (every oracle), sticky abort,
             re-run = fresh run, on_reset once, counter; the prefix / whole-trace prefix also for every single-threaded NON-monotone history
             (`PollBlind`: reset() in mid-iteration); `C15_D19_fixed_witness` / `C15_D20_fixed_witness` (repaired).
Tie (K7)   : recording subclass of WcMatch vs the Lean model:
             * every abort point k = 0..n of every generated tree — by hook-invocation index, by poll index
               and by number of values received — with scripted hooks (return False / raise / return values);
             * a raise at every position of the hook sequence (validation hooks and compare_* overrides);
             * op interleavings match / imatch / next / kill / reset / is_aborted / get_skipped on ONE object,
               exhaustive up to length 4 (quick) / 6 (thorough) + sampled longer ones, real abort flag;
             * thorough: a second thread calling kill() under a tiny switch interval (observed polls replayed).
Search     : the property itself on the real code (no model): prefix, overshoot (none), sticky, reset/re-run,
             on_reset once, counter, routing, for kill() called from every hook invocation / between any two
             values / before the start; histories with kill() / reset() from hooks and between two next() of one
             generator (values and hook trace a prefix of the uninterrupted run's); the witnesses of the repaired
             D19 / D20 are replayed — a reproduction is a VIOLATION.
"""
from __future__ import annotations
import itertools
import json

import common
import k7_wcwalk as K
from common import enc
from framework import Check, Failing

TARGETS = ['WcModel.Properties.C15']

OPS_TREE = {'d1': {'x': None, '.hx': None}, 'skipme': {'s': None}, 'd2': {}, 'f1': None, 'f2': None, '.h': None}
D19_TREE = {'d': {}, 'skipme': {'s': None}, 'f1': None, 'f2': None}
D20_TREE = {'d1': {}, 'd2': {}, 'f1': None}


def _events(line: str) -> list[str]:
    return [e for e in line.split(' ') if e and e[0] != 'K']


def _results(evs: list[str]) -> list[str]:
    return [e for e in evs if e[0] == 'Y']


def _is_prefix(a: list, b: list) -> bool:
    return len(a) <= len(b) and b[:len(a)] == a


def _overshoot_ok(evs: list[str]) -> tuple[bool, int]:
    """`C15_overshoot` (`After`): after the first poll that returned true nothing happens but, at most, ONE more
    poll, which answers true — no file is visited, no hook invoked, no value yielded"""
    if 'P1' not in evs:
        return True, 0
    post = evs[evs.index('P1') + 1:]
    visits = sum(1 for e in post if e[0] in 'MS')
    return post in ([], ['P1']), visits


def _kill_point_ok(evs: list[str], kind: str, k: int) -> bool:
    """`C15_paced`: kill() inside the k-th hook invocation / by the consumer right after the k-th value — only the
    file (or directory) being processed is finished: every hook invocation up to the next poll is for the same path,
    and that poll observes the flag (added when the repair of D20 closed the path by which seeded change C15a — a
    `continue` that jumps over the after-file poll — used to show up)"""
    if kind == 'hook':
        at = [i for i, e in enumerate(evs) if e[0] in 'RDFMSE']
        path = lambda e: e[1:]  # noqa: E731
    else:
        at = [i for i, e in enumerate(evs) if e[0] == 'Y']
        path = lambda e: e[2:]  # noqa: E731
    if k < 1 or k > len(at):
        return True
    i = at[k - 1]
    here = path(evs[i])
    for e in evs[i + 1:]:
        if e[0] == 'P':
            return e == 'P1'
        if e[0] in 'DFMSE' and e[1:] != here:
            return False
    return True     # the run ended before another poll: nothing further happened


def _trace(evs: list[str]) -> list[str]:
    """everything but the polls (`nonPoll` of `C15_trace_prefix`)"""
    return [e for e in evs if e[0] != 'P']


def _routing_ok(evs: list[str], script: K.Script, files: set | None = None) -> str | None:
    """each visited file to exactly one of on_match/on_skip, on_error only when something raised, values
    passed through unchanged, on_reset once and first"""
    if not evs or evs[0] != 'R' or evs.count('R') != 1:
        return 'on_reset not exactly once / not first'
    ms = [e[1:] for e in evs if e[0] in 'MS']
    if len(set(ms)) != len(ms):
        return 'a file went to on_match/on_skip more than once'
    # EVERY visited file goes to one of the two — also one whose validation hook or comparison raised (on_error is
    # additional, not instead: added after seeded change C15g, which sent such a file to on_error only).  Visited =
    # on_validate_file was invoked for it, or on_error was invoked for a FILE of the tree.
    if files is not None:
        routed = set(ms)
        for e in evs:
            if e[0] == 'F' or (e[0] == 'E' and common.dec(e[1:]) in files):
                if e[1:] not in routed:
                    return f'the visited file {common.dec(e[1:])!r} went to neither on_match nor on_skip'
    want = []
    for e in evs:
        if e[0] == 'M':
            want.append('Ym' + e[1:])
        elif e[0] == 'S' and (script.skip_all or common.dec(e[1:]) in script.skip_val):
            want.append('Ys' + e[1:])
        elif e[0] == 'E' and (script.err_all or common.dec(e[1:]) in script.err_val):
            want.append('Ye' + e[1:])
    if _results(evs) != want:
        return 'yielded values are not the hook return values in order'
    raising = script.dir_raise | script.file_raise | script.cmp_file_raise | script.cmp_dir_raise
    for e in evs:
        if e[0] == 'E':
            p = common.dec(e[1:])
            if p not in raising and p.rsplit('/', 1)[-1] not in raising:
                return 'on_error without a raise'
    return None


def _rand_script_kw(R, case: K.Case) -> dict:
    files, dirs = K.all_paths(case.tree)
    fkeys = ['/'.join(r + [n]) for r, n in files]
    dkeys = ['/'.join(r + [n]) for r, n in dirs]
    kw: dict = {}
    r = R.random()
    if r < 0.25:
        return kw
    pick = lambda ks, p: [k for k in ks if R.random() < p]  # noqa: E731
    kw['dir_false'] = pick(dkeys, 0.2)
    kw['file_false'] = pick(fkeys, 0.2)
    if R.random() < 0.5:
        kw['file_raise'] = pick(fkeys, 0.2)
    if R.random() < 0.4:
        kw['dir_raise'] = pick(dkeys, 0.3)
    if R.random() < 0.5:
        kw['skip_all'] = True
    else:
        kw['skip_val'] = pick(fkeys, 0.3)
    if R.random() < 0.5:
        kw['err_all'] = True
    else:
        kw['err_val'] = pick(fkeys + dkeys, 0.3)
    return kw


def run(ck: Check) -> int:
    common.import_wcmatch()
    from wcmatch import wcmatch as WM
    ck.build()
    ck.audit()
    R = common.rng('C15')
    quick = ck.tier == 'quick' and not ck.deep()
    drv = common.Driver() if ck.driver_ok else None

    # ------------------------------------------------------------------ K7: every abort point
    def s_abort(sr):
        sr.note = ('K7: for each generated tree × configuration × hook script: the uninterrupted run, then EVERY '
                   'abort point — oracle true from the k-th hook invocation (k=0..n+1), from the k-th poll, after k '
                   'received values — real recording subclass vs Lean `run`; complete event sequence + get_skipped()')
        rows = []
        n_trees = 800 if quick else 6000
        fixed = [K.TempTree(spec=OPS_TREE), K.TempTree(spec=D19_TREE), K.TempTree(spec=D20_TREE)]
        gens = fixed + [K.TempTree(R, max_entries=R.choice([5, 8, 12])) for _ in range(n_trees)]
        seen = set()
        for tt in gens:
            with tt as root:
                cyc = K.is_cyclic(root)
                for _ in range(2 if quick else 3):
                    fl = K.gen_flags(R, WM, cyc) | (WM.RECURSIVE if R.random() < 0.7 else 0)
                    fp = K.gen_pat(R, K.FILE_BODIES, 0.25)
                    xp = K.gen_pat(R, K.DIR_BODIES, 0.4)
                    try:
                        case = K.Case(root, fl, fp, xp)
                    except K.Cyclic:
                        continue
                    kw = _rand_script_kw(R, case)
                    base = case.new_script(oracle=K.oracle_fn('0'), **kw)
                    try:
                        full = case.real_run(base)
                    except common.CallTimeout:
                        continue
                    evs = _events(full)
                    nh = sum(1 for e in evs if e[0] in 'RDFMSE')
                    npoll = sum(1 for e in evs if e[0] == 'P')
                    ny = len(_results(evs))
                    oracles = ['0'] + [f'h{k}' for k in range(nh + 2)] + [f'p{k}' for k in range(npoll + 1)] + \
                              [f'y{k}' for k in range(ny + 1)]
                    seen.add((case.tree_s, fl, fp.text(case.minus), xp.text(case.minus), json.dumps(kw, sort_keys=True)))
                    for orc in oracles:
                        sc = case.new_script(oracle=K.oracle_fn(orc), **kw)
                        try:
                            real = case.real_run(sc)
                        except common.CallTimeout:
                            continue
                        rows.append((case.describe(), kw, orc, case.model_line(sc, orc), real))
                        sr.histogram[orc[0]] = sr.histogram.get(orc[0], 0) + 1
        replies = drv.ask_many([r[3] for r in rows])
        for (desc, kw, orc, mline, real), model in zip(rows, replies):
            sr.evaluations += 1
            if real != model:
                sr.disagree({'case': desc, 'script': kw, 'oracle': orc, 'real': real, 'model': model})
        sr.distinct = len(seen)
        sr.samples = [{'case': r[0], 'script': r[1], 'oracle': r[2]} for r in rows[:2]]
    ck.stream('K7-abort-points', s_abort)

    # ------------------------------------------------------------------ K7: a raise at every position
    def s_raise(sr):
        sr.note = ('K7: a raise at EVERY position of the hook sequence — on_validate_directory / on_validate_file at each '
                   'path, compare_file / compare_directory overrides at each argument — with on_skip/on_error returning '
                   'values or None, each combined with abort points; real vs model, complete event sequence')
        rows = []
        n_trees = 400 if quick else 3000
        gens = [K.TempTree(spec=OPS_TREE), K.TempTree(spec=D20_TREE)] + \
               [K.TempTree(R, max_entries=R.choice([5, 8, 10])) for _ in range(n_trees)]
        seen = set()
        for tt in gens:
            with tt as root:
                cyc = K.is_cyclic(root)
                fl = K.gen_flags(R, WM, cyc) | WM.RECURSIVE
                fp = K.gen_pat(R, K.FILE_BODIES, 0.4)
                xp = K.gen_pat(R, K.DIR_BODIES, 0.5)
                try:
                    case0 = K.Case(root, fl, fp, xp)
                except K.Cyclic:
                    continue
                base = case0.new_script(oracle=K.oracle_fn('0'))
                try:
                    evs = _events(case0.real_run(base))
                except common.CallTimeout:
                    continue
                positions = [('dir_raise', common.dec(e[1:])) for e in evs if e[0] == 'D'] + \
                            [('file_raise', common.dec(e[1:])) for e in evs if e[0] == 'F']
                files, dirs = K.all_paths(case0.tree)
                fpn, dpn = bool(fl & WM.FILEPATHNAME), bool(fl & WM.DIRPATHNAME)
                if fp.alts:
                    positions += [('cmp_file_raise', K.key_of(fpn, r, n)) for r, n in files]
                if xp.alts:
                    positions += [('cmp_dir_raise', K.key_of(dpn, r, n)) for r, n in dirs]
                if len(positions) > (12 if quick else 40):
                    positions = R.sample(positions, 12 if quick else 40)
                for kind, key in positions:
                    cmpkw = {kind: [key]} if kind.startswith('cmp') else {}
                    try:
                        case = K.Case(root, fl, fp, xp, **cmpkw) if cmpkw else case0
                    except K.Cyclic:
                        continue
                    kw = {} if cmpkw else {kind: [key]}
                    kw['skip_all'] = R.random() < 0.5
                    kw['err_all'] = R.random() < 0.6
                    seen.add((case.tree_s, fl, kind, key))
                    full = None
                    for orc in ['0'] + [R.choice(['h', 'p', 'y']) + str(R.randint(0, 12)) for _ in range(2 if quick else 5)]:
                        sc = case.new_script(oracle=K.oracle_fn(orc), **kw)
                        try:
                            real = case.real_run(sc)
                        except common.CallTimeout:
                            continue
                        if orc == '0':
                            full = real
                        rows.append((case.describe(), {kind: key, **{k: v for k, v in kw.items() if isinstance(v, bool)}},
                                     orc, case.model_line(sc, orc), real))
                    if full is not None and not any(e[0] == 'E' for e in _events(full)):
                        sr.histogram['raise-not-reached'] = sr.histogram.get('raise-not-reached', 0) + 1
                    else:
                        sr.histogram['raise-reached'] = sr.histogram.get('raise-reached', 0) + 1
        replies = drv.ask_many([r[3] for r in rows])
        for (desc, kw, orc, mline, real), model in zip(rows, replies):
            sr.evaluations += 1
            if real != model:
                sr.disagree({'case': desc, 'script': kw, 'oracle': orc, 'real': real, 'model': model})
        sr.distinct = len(seen)
    ck.stream('K7-raise-positions', s_raise)

    # ------------------------------------------------------------------ K7: op interleavings on one object
    def s_ops(sr):
        L = 4 if quick else 6
        sr.note = (f'K7: every interleaving of match / imatch / next / kill / reset / is_aborted / get_skipped up to length {L} '
                   'on ONE object (real abort flag, default is_aborted recorded) + sampled sequences of length 5-7 with '
                   'match@k (kill() inside the k-th hook invocation), on two trees × two hook scripts; per-op observations')
        alpha = ['m', 'i', 'n', 'k', 'r', 'a', 's']
        seqs = [list(t) for n in range(1, L + 1) for t in itertools.product(alpha, repeat=n)]
        for _ in range(10000 if quick else 40000):
            n = R.randint(5, 7)
            s = ['i'] if R.random() < 0.6 else []
            while len(s) < n:
                x = R.choice(alpha + ['n', 'n', 'n'])
                if x == 'm' and R.random() < 0.4:
                    x = f'm@{R.randint(1, 9)}'
                s.append(x)
            seqs.append(s)
        rows = []
        for spec, fpt, xpt, kw in (
                (OPS_TREE, K.Pat([(False, False, '*')]), K.Pat([(False, False, 'skipme')]), {'skip_all': True}),
                (D20_TREE, K.Pat([(False, False, '*')]), K.Pat([]),
                 {'dir_raise': ['d1', 'd2'], 'err_all': True, 'skip_all': True})):
            with K.TempTree(spec=spec) as root:
                case = K.Case(root, WM.RECURSIVE, fpt, xpt)
                use = seqs if spec is OPS_TREE else ([s for s in seqs if len(s) <= (3 if quick else 4)] + seqs[-(10000 if quick else 40000):])
                for s in use:
                    sc = case.new_script(**kw)
                    try:
                        real = case.real_ops(sc, s)
                    except common.CallTimeout:
                        continue
                    rows.append((spec is OPS_TREE, s, case.ops_line(sc, s), real))
        replies = drv.ask_many([r[2] for r in rows])
        for (which, s, mline, real), model in zip(rows, replies):
            sr.evaluations += 1
            sr.histogram[len(s)] = sr.histogram.get(len(s), 0) + 1
            if real != model:
                sr.disagree({'tree': 'OPS_TREE' if which else 'D20_TREE', 'ops': s, 'real': real, 'model': model})
        sr.distinct = len(rows)
        sr.samples = [{'ops': r[1], 'observed': r[3][:300]} for r in rows[400:402]]
    ck.stream('K7-op-interleavings', s_ops)

    # ------------------------------------------------------------------ K7 (thorough): kill() from a second thread
    def s_threads(sr):
        sr.note = ('K7: kill() from a second thread under sys.setswitchinterval(1e-6); the poll values the run observed are '
                   'replayed into the model as the oracle; additionally: observed polls monotone, results a prefix')
        rows = []
        with K.TempTree(spec={'d%d' % i: {'f%d' % j: None for j in range(4)} for i in range(6)}) as root:
            case = K.Case(root, WM.RECURSIVE, K.Pat([(False, False, '*')]), K.Pat([]))
            full = _results(_events(case.real_run(case.new_script(oracle=K.oracle_fn('0')))))
            for it in range(1500 if not quick else 60):
                real, polls = K.kill_thread_run(case, R.randint(0, 30000))
                bits = ''.join('1' if b else '0' for b in polls)
                rows.append((bits, case.model_line(None, 'B' + bits), real))
                if sorted(polls) != polls:
                    ck.report(Failing('poll values observed by one run are not monotone although only kill() was called',
                                      {'polls': bits}, 'monotone', bits))
                if not _is_prefix(_results(_events(real)), full):
                    ck.report(Failing('thread kill(): results are not a prefix', {'polls': bits}, full, real))
                sr.histogram['aborted' if '1' in bits else 'completed'] = sr.histogram.get('aborted' if '1' in bits else 'completed', 0) + 1
        replies = drv.ask_many([r[1] for r in rows])
        for (bits, mline, real), model in zip(rows, replies):
            sr.evaluations += 1
            if real != model:
                sr.disagree({'polls': bits, 'real': real, 'model': model})
        sr.distinct = len({r[0] for r in rows})
    ck.stream('K7-thread-kill', s_threads)

    # ------------------------------------------------------------------ search: the property on the real code
    def s_prop(sr):
        sr.note = ('the property on the real code, no model: kill() called inside every hook invocation (real abort flag), '
                   'between any two received values, and before the start; checked: prefix of the uninterrupted results, '
                   'overshoot (after kill() only the file being processed is finished before a poll observes the flag; after '
                   'the first observing poll at most one more poll, answering true: no file, no hook), '
                   'sticky until reset(), reset() + match() = the complete result, identical re-runs, on_reset once, '
                   'counter restarted and = number of on_skip calls, routing / value pass-through')
        n_trees = 400 if quick else 4000
        gens = [K.TempTree(spec=OPS_TREE), K.TempTree(spec=D19_TREE), K.TempTree(spec=D20_TREE)] + \
               [K.TempTree(R, max_entries=R.choice([5, 8, 12])) for _ in range(n_trees)]
        overs = 0
        for tt in gens:
            with tt as root:
                cyc = K.is_cyclic(root)
                fl = K.gen_flags(R, WM, cyc) | (WM.RECURSIVE if R.random() < 0.8 else 0)
                fp = K.gen_pat(R, K.FILE_BODIES, 0.3)
                xp = K.gen_pat(R, K.DIR_BODIES, 0.4)
                if tt.spec is D20_TREE:
                    fl, fp, xp = WM.RECURSIVE, K.Pat([(False, False, '*')]), K.Pat([])
                try:
                    case = K.Case(root, fl, fp, xp)
                except K.Cyclic:
                    continue
                kw = _rand_script_kw(R, case)
                if tt.spec is D20_TREE:
                    kw = {'dir_raise': ['d1', 'd2'], 'err_all': True}
                sc0 = case.new_script(**kw)
                o = case.obj(sc0)
                try:
                    with common.time_limit(20):
                        sc0.log = []
                        res1 = o.match()
                        log1 = list(sc0.log)
                        sk1 = o.get_skipped()
                        sc0.log = []
                        res2 = o.match()
                        log2 = list(sc0.log)
                        sk2 = o.get_skipped()
                except common.CallTimeout:
                    continue
                desc = {**case.describe(), 'script': kw}
                sr.evaluations += 1
                full_evs = K._interleave(log1, res1)
                full = _results(full_evs)
                if (res1, log1, sk1) != (res2, log2, sk2):
                    ck.report(Failing('two match() runs of one object differ', desc, [log1, sk1], [log2, sk2]))
                file_keys = {'/'.join(r + [n]) for r, n in K.all_paths(case.tree)[0]}
                rt = _routing_ok(full_evs, sc0, file_keys)
                if rt:
                    ck.report(Failing('routing: ' + rt, desc, 'routing as stated', ' '.join(full_evs)))
                if sk1 != sum(1 for e in log1 if e[0] == 'S'):
                    ck.report(Failing('get_skipped() != number of on_skip calls', desc, sum(1 for e in log1 if e[0] == 'S'), sk1))
                nh = sum(1 for e in log1 if e[0] in 'RDFMSE')
                points = [('init', 0)] + [('hook', k) for k in range(0, nh + 1)] + [('yield', k) for k in range(0, len(res1) + 1)]
                for kind, k in points:
                    sc = case.new_script(**kw)
                    # kill() from on_init (added after seeded change C15f: the constructor cleared the flag after the hook)
                    sc.kill_in_init = kind == 'init'
                    obj = case.obj(sc)
                    try:
                        with common.time_limit(20):
                            if kind == 'init':
                                for v in obj.imatch():
                                    sc.log.append(K.yv(v))
                            elif kind == 'hook':
                                if k == 0:
                                    obj.kill()
                                else:
                                    sc.kill_at = k
                                for v in obj.imatch():
                                    sc.log.append(K.yv(v))
                            else:
                                got = 0
                                if k == 0:
                                    obj.kill()
                                for v in obj.imatch():
                                    sc.log.append(K.yv(v))
                                    got += 1
                                    if got == k:
                                        obj.kill()
                            evs = list(sc.log)
                            sc.kill_at = None
                            aborted = WM.WcMatch.is_aborted(obj)
                            sk_after = obj.get_skipped()
                            sc.log = []
                            again = obj.match() if aborted else None
                            log_again = list(sc.log)
                            sk_again = obj.get_skipped()
                            obj.reset()
                            sc.log = []
                            revived = obj.match()
                            log_rev = list(sc.log)
                            sk_rev = obj.get_skipped()
                    except common.CallTimeout:
                        continue
                    sr.evaluations += 1
                    inp = {**desc, 'kill': f'{kind} {k}'}
                    res = _results(evs)
                    if not _is_prefix(res, full):
                        # (was KF-D20 when a value is yielded from inside the folder loop; repaired: never attributed)
                        ck.report(Failing('results after kill() are not a prefix of the uninterrupted results', inp, full, res,
                                          'wcmatch/wcmatch.py:267-302'))
                        sr.histogram['prefix-fail'] = sr.histogram.get('prefix-fail', 0) + 1
                    if not _is_prefix(_trace(evs), _trace(full_evs)):
                        ck.report(Failing('hook invocations / values after kill() are not an initial segment of the '
                                          "uninterrupted run's", inp, ' '.join(_trace(full_evs)), ' '.join(_trace(evs)),
                                          'wcmatch/wcmatch.py:257-305'))
                    ok, visits = _overshoot_ok(evs)
                    overs += visits
                    if not ok:
                        ck.report(Failing('after the first poll that observed the flag something other than one more '
                                          'true poll happened (a file visited / a hook invoked / a false poll)', inp,
                                          'nothing, or one poll answering true', ' '.join(evs), 'wcmatch/wcmatch.py:277-282'))
                    if kind in ('hook', 'yield') and not _kill_point_ok(evs, kind, k):
                        ck.report(Failing('after kill() (from a hook / by the consumer after a value) another file or directory '
                                          'is processed before a poll observes the flag', inp,
                                          'only the file being processed is finished, then a poll answers true', ' '.join(evs),
                                          'wcmatch/wcmatch.py:267-305'))
                    if sk_after != sum(1 for e in evs if e[0] == 'S'):
                        ck.report(Failing('get_skipped() after an aborted run != number of on_skip calls of that run', inp,
                                          sum(1 for e in evs if e[0] == 'S'), sk_after))
                    rt = _routing_ok(evs, sc, file_keys)
                    if rt:
                        ck.report(Failing('routing (aborted run): ' + rt, inp, 'routing as stated', ' '.join(evs)))
                    if kind == 'init' and (not aborted or res):
                        ck.report(Failing('kill() from on_init: the object is not aborted / the run yields values', inp, [True, []], [aborted, res]))
                    if kind == 'hook' and 0 < k <= sum(1 for e in evs if e[0] in 'RDFMSE') and not aborted:
                        ck.report(Failing('object not aborted after kill() from a hook', inp, True, False))
                    if aborted and (again != [] or log_again != ['R', 'P1'] or sk_again != 0):
                        ck.report(Failing('aborted object: a later match() did something', inp, [[], ['R', 'P1'], 0],
                                          [again, log_again, sk_again]))
                    if (revived, log_rev, sk_rev) != (res1, log1, sk1):
                        ck.report(Failing('after reset() match() is not the complete uninterrupted run', inp,
                                          [log1, sk1], [log_rev, sk_rev]))
                # on_match / on_skip / on_error raising (not modelled): the exception reaches the consumer, what was
                # yielded before is a prefix, and the object is usable afterwards
                hooks_seen = [(e[0], common.dec(e[1:])) for e in log1 if e[0] in 'MSE']
                for pos in (hooks_seen if len(hooks_seen) <= 6 else R.sample(hooks_seen, 6)):
                    sc = case.new_script(**kw)
                    sc.hook_raise = pos
                    obj = case.obj(sc)
                    raised = False
                    try:
                        with common.time_limit(20):
                            try:
                                for v in obj.imatch():
                                    sc.log.append(K.yv(v))
                            except K.HookBoom:
                                raised = True
                            evs = list(sc.log)
                            sc.hook_raise = None
                            sc.log = []
                            after = obj.match()
                            log_after = list(sc.log)
                    except common.CallTimeout:
                        continue
                    sr.evaluations += 1
                    inp = {**desc, 'raise_in': list(pos)}
                    if not raised:
                        ck.report(Failing('an exception raised by on_match/on_skip/on_error did not reach the consumer', inp,
                                          'HookBoom', ' '.join(evs)))
                    if not _is_prefix(_results(evs), full):
                        ck.report(Failing('values yielded before a raising hook are not a prefix', inp, full, _results(evs)))
                    if (after, log_after) != (res1, log1):
                        ck.report(Failing('run after a raising hook differs from the uninterrupted run', inp, log1, log_after))
                    sr.histogram['hook-raise'] = sr.histogram.get('hook-raise', 0) + 1
                # an iterator created but NOT started while the same object runs again: each run — the parked one too, when it is finally
                # consumed — calls on_reset once, first, restarts the counter and yields the complete sequence (added after seeded change
                # C15i: imatch() returned the walk generator directly, so on_reset / the counter restart happened when the iterator was created)
                sc = case.new_script(**kw)
                obj = case.obj(sc)
                try:
                    with common.time_limit(20):
                        sc.log = []
                        parked = obj.imatch()
                        log_created = list(sc.log)
                        sc.log = []
                        between = obj.match()
                        log_between = list(sc.log)
                        sk_between = obj.get_skipped()
                        sc.log = []
                        late = [v for v in parked]
                        log_late = list(sc.log)
                        sk_late = obj.get_skipped()
                except common.CallTimeout:
                    continue
                sr.evaluations += 1
                inp = {**desc, 'history': 'it = imatch(); match(); list(it)'}
                if log_created:
                    ck.report(Failing('creating an imatch() iterator already invoked hooks (a run starts when its iterator is first advanced)', inp, [], log_created[:6]))
                if (between, log_between, sk_between) != (res1, log1, sk1):
                    ck.report(Failing('match() while an unstarted imatch() iterator of the same object exists differs from the uninterrupted run', inp, [log1, sk1], [log_between, sk_between]))
                if (late, log_late, sk_late) != (res1, log1, sk1):
                    ck.report(Failing('an imatch() iterator consumed after another run of the same object: on_reset not first / counter not restarted / different sequence',
                                      inp, [log1[:8], sk1], [log_late[:8], sk_late]))
                sr.histogram['parked-iterator'] = sr.histogram.get('parked-iterator', 0) + 1
        sr.histogram['files-visited-after-the-observing-poll'] = overs
        sr.distinct = sr.evaluations
    ck.search('property-on-real-code', s_prop)

    # ------------------------------------------------------------------ search: non-monotone single-threaded histories
    def s_d19(sr):
        sr.note = ('histories with reset(): kill() / reset() called from hook invocations and by the consumer between two '
                   'next() of ONE generator (C15_prefix_single_thread / C15_trace_prefix: every oracle that does not look at '
                   'the poll counter); checked on the real code: values a prefix of the uninterrupted results, hook trace an '
                   'initial segment, nothing but one true poll after the first observing poll; the observed poll values are '
                   'replayed into the model (tie).  First the witnesses of the repaired D19 (exclude "skipme", kill() inside '
                   'the first on_validate_directory, one next(), reset(), iterate) and D20 (directory validation raises, '
                   'on_error returns values, kill() in hook #2 / after the first value): a reproduction is a VIOLATION')
        n_trees = 300 if quick else 3000
        rows = []

        def history(case, kw, kill_at, reset_at, acts):
            """acts[i] is done by the consumer before the (i+1)-th next(): 'k' kill, 'r' reset, 'kr' both, '' nothing"""
            sc = case.new_script(kill_at=kill_at, reset_at=reset_at, **kw)
            obj = case.obj(sc)
            gen = obj.imatch()
            got = []
            i = 0
            with common.time_limit(20):
                while True:
                    for a in (acts[i] if i < len(acts) else ''):
                        obj.kill() if a == 'k' else obj.reset()
                    i += 1
                    try:
                        v = next(gen)
                    except StopIteration:
                        break
                    sc.log.append(K.yv(v))
                    got.append(K.yv(v))
            return sc, obj, got

        def one(case, kw, kill_at, reset_at, acts, what):
            try:
                full_evs = _events(case.real_run(case.new_script(oracle=K.oracle_fn('0'), **kw)))
                sc, obj, got = history(case, kw, kill_at, reset_at, acts)
            except common.CallTimeout:
                return
            sr.evaluations += 1
            full = _results(full_evs)
            evs = list(sc.log)
            polls = ''.join('1' if e == 'P1' else '0' for e in evs if e[0] == 'P')
            hist = {'kill_in_hook': kill_at, 'reset_in_hooks': sorted(reset_at),
                    'consumer_before_each_next': list(acts), 'observed_polls': polls}
            inp = {**case.describe(), 'script': kw, 'history': hist}
            sr.histogram[what] = sr.histogram.get(what, 0) + 1
            if '1' in polls:
                sr.histogram['flag-observed'] = sr.histogram.get('flag-observed', 0) + 1
            if '0' in polls[polls.find('1') + 1:] and '1' in polls:
                sr.histogram['false-poll-after-true'] = sr.histogram.get('false-poll-after-true', 0) + 1
            outside = [g for g in got if g not in full]
            if outside:
                ck.report(Failing('values outside the uninterrupted sequence are yielded (the walk continued into '
                                  'directories that were never validated)', inp, full, got, 'wcmatch/wcmatch.py:277-282'))
            elif not _is_prefix(got, full):
                ck.report(Failing('kill()/reset() history: the values are not a prefix of the uninterrupted results',
                                  inp, full, got, 'wcmatch/wcmatch.py:267-302'))
            if not _is_prefix(_trace(evs), _trace(full_evs)):
                ck.report(Failing("kill()/reset() history: hook invocations / values are not an initial segment of the "
                                  "uninterrupted run's", inp, ' '.join(_trace(full_evs)), ' '.join(_trace(evs)),
                                  'wcmatch/wcmatch.py:257-305'))
            if not _overshoot_ok(evs)[0]:
                ck.report(Failing('kill()/reset() history: after the first poll that observed the flag something other than '
                                  'one more true poll happened', inp, 'nothing, or one poll answering true', ' '.join(evs),
                                  'wcmatch/wcmatch.py:277-282'))
            real = ' '.join(evs + [f'K{obj.get_skipped()}'])
            rows.append((inp, case.model_line(sc, 'b' + polls), real))

        star = K.Pat([(False, False, '*')])
        with K.TempTree(spec=D19_TREE) as root:
            case = K.Case(root, WM.RECURSIVE, star, K.Pat([(False, False, 'skipme')]))
            one(case, {}, 2, (), ['', 'r'], 'D19-witness')           # the recorded history of the repaired D19
            for acts in (['', 'r', 'k', 'r'], ['k', 'r'], ['', 'k', 'r'], ['', 'kr'], ['', '', 'k', 'r']):
                for ka in (None, 2, 3, 4):
                    one(case, {}, ka, (), acts, 'D19-tree')
                    one(case, {}, ka, (ka + 1,) if ka else (3,), acts, 'D19-tree')
        with K.TempTree(spec=D20_TREE) as root:
            case = K.Case(root, WM.RECURSIVE, star, K.Pat([]))
            kw20 = {'dir_raise': ['d1', 'd2'], 'err_all': True}
            one(case, kw20, 2, (), [], 'D20-witness')                 # the recorded witness of the repaired D20
            one(case, kw20, None, (), ['', 'k'], 'D20-witness')       # … and its "consumer kills after the first value" form
            for acts in (['', 'k', 'r'], ['', 'kr'], ['', 'r'], ['', '', 'k']):
                for ka in (None, 2, 3, 5):
                    one(case, kw20, ka, (), acts, 'D20-tree')
                    one(case, kw20, ka, (4,), acts, 'D20-tree')
        for tt in [K.TempTree(R, max_entries=R.choice([5, 8, 12])) for _ in range(n_trees)]:
            with tt as root:
                cyc = K.is_cyclic(root)
                fl = K.gen_flags(R, WM, cyc) | (WM.RECURSIVE if R.random() < 0.85 else 0)
                fp = K.gen_pat(R, K.FILE_BODIES, 0.3)
                xp = K.gen_pat(R, K.DIR_BODIES, 0.4)
                try:
                    case = K.Case(root, fl, fp, xp)
                except K.Cyclic:
                    continue
                kw = _rand_script_kw(R, case)
                try:
                    evs0 = _events(case.real_run(case.new_script(oracle=K.oracle_fn('0'), **kw)))
                except common.CallTimeout:
                    continue
                nh = sum(1 for e in evs0 if e[0] in 'RDFMSE')
                ny = len(_results(evs0))
                for _ in range(6 if quick else 10):
                    ka = R.randint(1, nh + 1) if R.random() < 0.7 else None
                    ra = tuple(sorted({R.randint(1, nh + 1) for _ in range(R.choice([0, 0, 1, 1, 2]))}))
                    acts = [R.choice(['', '', '', 'k', 'r', 'r', 'kr']) for _ in range(ny + 2)]
                    one(case, kw, ka, ra, acts, 'generated')
        if drv is not None:
            replies = drv.ask_many([r[1] for r in rows])
            agree = bad = 0
            for (inp, mline, real), model in zip(rows, replies):
                if real == model:
                    agree += 1
                    continue
                bad += 1
                if bad <= 3:
                    ck.broken_ties.append('history replay: ' + json.dumps({'input': inp, 'real': real, 'model': model})[:1500])
            if bad > 3:
                ck.broken_ties.append(f'history replay: {bad} of {len(rows)} histories differ between model and code')
            if bad:
                sr.histogram['model-disagrees'] = bad
            sr.histogram['model-agrees'] = agree
        sr.distinct = len({json.dumps(r[0], sort_keys=True) for r in rows})
    ck.search('D19-mid-iteration-reset', s_d19)

    if drv:
        drv.close()
    return ck.finish(assumptions=[
        'hooks are functions of (base, name): the same file gets the same answer in every run',
        'exceptions raised by on_match / on_skip / on_error / on_reset propagate to the consumer and are not modelled',
        'at most one generator of an object is live in the op-interleaving stream (imatch closes the previous one)',
        'the non-monotone theorems (C15_prefix_single_thread, C15_trace_prefix) cover single-threaded histories only: an '
        'oracle that clears the flag between two consecutive polls (a second thread calling reset()) is outside `Latched`',
    ])


def replay(path: str) -> int:
    """re-create the tree of a failing input and re-run the recorded kill point on the real code"""
    import ast
    import os
    import shutil
    import tempfile
    common.import_wcmatch()
    from wcmatch import wcmatch as WM
    data = json.load(open(path))
    for f in data.get('failing', []):
        i = f['input']
        print(f['what'])
        if 'tree_readable' not in i:
            print(json.dumps(f, indent=1)[:2000])
            continue
        tmp = tempfile.mkdtemp(prefix='c15r-', dir='/tmp')
        try:
            root = os.path.join(tmp, 'root')
            os.mkdir(root)
            K.build_from_abstract(root, ast.literal_eval(i['tree_readable']), os.path.join(tmp, 'outside'))
            rec = K.rec_class()
            kw = {k: v for k, v in (i.get('script') or {}).items()}

            def one(kill):
                sc = K.Script(root, **kw)
                o = rec(root, i['file_pattern'], i['exclude_pattern'], i['flags'], k7=sc)
                kind, k = (kill.split(' ') + ['0'])[:2] if kill else ('none', '0')
                k = int(k)
                if kind in ('hook', 'yield') and k == 0 and kill:
                    o.kill()
                elif kind == 'hook':
                    sc.kill_at = k
                got = 0
                with common.time_limit(20):
                    for v in o.imatch():
                        sc.log.append(K.yv(v))
                        got += 1
                        if kind == 'yield' and got == k:
                            o.kill()
                return ' '.join(sc.log)
            print(' uninterrupted:', one(None))
            print(' with kill    :', one(i.get('kill')), ' [kill =', i.get('kill'), ']')
            print(' expected', f['expected'])
            print(' recorded', f['observed'])
        finally:
            shutil.rmtree(tmp, ignore_errors=True)
    if not data.get('failing'):
        print('broken ties:', json.dumps(data.get('broken_ties'), indent=1)[:3000])
    return 0

"""C09 — escape makes any string literal; non-magic patterns are literal.

Proof  : Properties/C09.lean — on the faithful port of WcParse (fnmatch mode, Unix rules), for
         EVERY string and every flag record: the pattern escape(s) compiles to a regex whose full
         matches are exactly the strings equal to s under the case rule; same for any p with
         is_magic(p, flags) False.
Tie    : K3  fnmatch.escape / glob.escape(unix=True) / is_magic  vs the model on all short strings
         over the metacharacter alphabet; K1 regex text on escaped strings.
Search : fnmatch(s, escape(s), flags) is True and every one-edit neighbour of s that is not equal
         to it under the selected case / separator equivalence is rejected — under random subsets
         of {EXTMATCH, BRACE, SPLIT, NEGATE, MINUSNEGATE, NEGATEALL, GLOBTILDE, GLOBSTAR, DOTMATCH,
         NODOTDIR, RAWCHARS, IGNORECASE, FORCEWIN/FORCEUNIX}; glob.escape on whole paths including
         drive / UNC shapes with unix=False; non-magic patterns match exactly themselves.
"""
from __future__ import annotations
import re
import warnings

import common
import gen
import streams
from framework import Check, Failing

warnings.simplefilter('ignore')
TARGETS = ['WcModel.Properties.C09']

ALPHA = 'a*?[]!()|{}~-\\/.+@A\n\xe9'


def neighbours(R, s: str, k: int = 6) -> list[str]:
    out = set()
    for _ in range(k):
        if s and R.random() < 0.4:
            i = R.randrange(len(s))
            out.add(s[:i] + s[i + 1:])
        elif s and R.random() < 0.5:
            i = R.randrange(len(s))
            out.add(s[:i] + R.choice('ab*?.x') + s[i + 1:])
        else:
            i = R.randrange(len(s) + 1)
            out.add(s[:i] + R.choice('ab*?.x/') + s[i:])
    # a trailing newline is the one edit Python's `$` (and `re.match` used for `fullmatch`) would forgive
    # (added after seeded changes C09d / C01a / C08d: include loop switched from fullmatch to match)
    out.add(s + '\n')
    out.add('\n' + s)
    if s.endswith('\n'):
        out.add(s[:-1])
    out.discard(s)
    return sorted(out)


def equiv(a: str, b: str, ci: bool, win: bool, path: bool) -> bool:
    """the equivalences C09 allows: case folding, separator spelling, duplicate/trailing separators"""
    if win:
        a, b = a.replace('\\', '/'), b.replace('\\', '/')
    if ci:
        a, b = a.lower(), b.lower()
    if path:
        import re
        a, b = re.sub('/+', '/', a).rstrip('/') or '/', re.sub('/+', '/', b).rstrip('/') or '/'
    return a == b


def run(ck: Check) -> int:
    common.import_wcmatch()
    from wcmatch import glob as G, fnmatch as F, _wcparse as W
    ck.build()
    ck.audit()
    R = common.rng('C09')
    quick = ck.tier == 'quick'
    drv = common.Driver() if ck.driver_ok else None
    strings = list(gen.exhaustive('a*?[]!()|{}~-\\/.', 3 if quick else 4))
    rnd = [''.join(R.choice(ALPHA) for _ in range(R.randint(1, 9))) for _ in range(4000 if quick else 60000)]

    def s_k3(sr):
        allst = strings + rnd
        outs = drv.ask_many([f'escape {common.enc(s)}' for s in allst])
        for s, o in zip(allst, outs):
            sr.evaluations += 1
            mo = common.dec(o.split(' ')[1])
            py1 = F.escape(s)
            py2 = G.escape(s, unix=True)
            if not (py1 == mo == py2):
                sr.disagree({'stream': 'K3-escape', 's': s, 'fnmatch.escape': py1, 'glob.escape(unix)': py2, 'model': mo})
            elif len(sr.samples) < 3 and len(s) > 3:
                sr.samples.append({'s': s, 'escape': py1})
        fbits = [F.EXTMATCH, F.BRACE, F.SPLIT, F.NEGATE, F.MINUSNEGATE, F.NEGATEALL, F.DOTMATCH, F.IGNORECASE, F.RAWCHARS]
        cases = [(s, gen.random_flags(R, fbits, 0.4, F.FORCEUNIX)) for s in allst]
        outs = drv.ask_many([f'ismagic {fl} {common.enc(s)}' for s, fl in cases])
        for (s, fl), o in zip(cases, outs):
            sr.evaluations += 1
            if (o == 'ok 1') != F.is_magic(s, flags=fl):
                sr.disagree({'stream': 'K3-is_magic', 's': s, 'flags': fl, 'code': F.is_magic(s, flags=fl), 'model': o})
        sr.distinct = len(set(allst))
        sr.note = 'escape / is_magic (Unix rules) vs model on all strings <= 3/4 over the metacharacter alphabet + random strings <= 9'
    ck.stream('K3-escape-ismagic', s_k3)

    def s_k1(sr):
        cases = []
        ib = [W.EXTMATCH, W.DOTMATCH, W.IGNORECASE, W.NEGATE, W.SPLIT, W.BRACE, W.PATHNAME, W.GLOBSTAR, W.NODOTDIR, W.MATCHBASE]
        for s in (strings if not quick else strings[::3]) + rnd[:3000]:
            cases.append((W.escape(s, unix=True, pathname=False), streams.reachable(gen.random_flags(R, ib, 0.35, W.FORCEUNIX)), False))
        for pth in gen.win_drive_patterns(3 if quick else 4):
            cases.append((W.escape(pth, unix=False), W.FORCEWIN | W.PATHNAME, False))
            cases.append((pth, W.FORCEWIN | W.PATHNAME | W.EXTMATCH, False))
        streams.k1(sr, drv, cases)
        sr.note = 'K1 regex text of escaped strings under random flags; every drive/UNC/device shape (<= 3/4 components), raw and escaped(unix=False), under FORCEWIN'
    ck.stream('K1-escaped-text', s_k1)

    def s_search(sr):
        deep = ck.deep()
        pool = (strings + rnd) if (deep or not quick) else (strings[::2] + rnd[:2500])
        fbits = [F.EXTMATCH, F.BRACE, F.SPLIT, F.NEGATE, F.MINUSNEGATE, F.NEGATEALL, F.DOTMATCH, F.IGNORECASE, F.CASE, F.RAWCHARS]
        gbits = fbits + [G.GLOBSTAR, G.GLOBTILDE, G.NODOTDIR, G.GLOBSTARLONG, G.NODIR]
        for k, s in enumerate(pool):
            if not s:
                continue
            sr.distinct += 1
            win = R.random() < 0.25
            # ---- fnmatch.escape on names
            fl = gen.random_flags(R, fbits, 0.35, F.FORCEWIN if win else F.FORCEUNIX)
            ci = (bool(fl & F.IGNORECASE) or win) and not (fl & F.CASE)
            pat = F.escape(s)
            try:
                with common.time_limit(5):
                    ok = F.fnmatch(s, pat, flags=fl)
                    nb = [(x, F.fnmatch(x, pat, flags=fl)) for x in neighbours(R, s)]
            except common.CallTimeout:
                continue
            except Exception as e:  # noqa: BLE001
                ck.report(Failing(f'fnmatch(s, escape(s)) raised {type(e).__name__}: {e}', {'api': 'fnmatch', 's': s, 'flags': fl}, True, repr(e)), None)
                continue
            sr.evaluations += 1 + len(nb)
            if not ok:
                ck.report(Failing(f'fnmatch({s!r}, escape(s)={pat!r}) is False', {'api': 'fnmatch', 's': s, 'pattern': pat, 'flags': fl}, True, False), None)
            for x, m in nb:
                if m and not equiv(s, x, ci, win, False):
                    ck.report(Failing(f'escape({s!r}) also matches {x!r}', {'api': 'fnmatch', 's': s, 'pattern': pat, 'other': x, 'flags': fl}, False, True), None)
            # ---- the same on bytes (RAWCHARS in half of the runs; added after seeded change C09f: the bytes twin of the
            # escaped-backslash entry of the RAWCHARS table lost its raw prefix)
            if k % 3 == 0 and all(ord(ch) < 256 for ch in s):
                sb = s.encode('latin-1')
                bfl = fl | (F.RAWCHARS if k % 2 == 0 else 0)
                try:
                    with common.time_limit(5):
                        pb = F.escape(sb)
                        okb = F.fnmatch(sb, pb, flags=bfl)
                        okg = G.globmatch(sb, G.escape(sb, unix=not win), flags=(G.FORCEWIN if win else G.FORCEUNIX) | (G.RAWCHARS if k % 2 == 0 else 0))
                        nbb = [(x, F.fnmatch(x.encode('latin-1'), pb, flags=bfl)) for x in neighbours(R, s) if all(ord(ch) < 256 for ch in x)]
                    sr.evaluations += 2 + len(nbb)
                    sr.histogram['bytes'] = sr.histogram.get('bytes', 0) + 1
                    if not okb:
                        ck.report(Failing(f'fnmatch({sb!r}, escape(s)={pb!r}) is False', {'api': 'fnmatch', 's': repr(sb), 'pattern': repr(pb), 'flags': bfl}, True, False), None)
                    if not okg and '\n' not in s:
                        ck.report(Failing(f'globmatch({sb!r}, escape(s)) is False', {'api': 'globmatch', 's': repr(sb), 'flags': bfl}, True, False), None)
                    for x, m in nbb:
                        if m and not equiv(s, x, ci, win, False):
                            ck.report(Failing(f'escape({sb!r}) also matches {x!r} (bytes)', {'api': 'fnmatch', 's': repr(sb), 'pattern': repr(pb), 'other': x, 'flags': bfl}, False, True), None)
                except common.CallTimeout:
                    pass
            # ---- glob.escape on paths (Unix rules and Windows rules)
            gfl = gen.random_flags(R, gbits, 0.3, G.FORCEWIN if win else G.FORCEUNIX)
            gci = (bool(gfl & G.IGNORECASE) or win) and not (gfl & G.CASE)
            path = s
            if win and R.random() < 0.5:
                path = R.choice(['c:/', 'C:\\', '//host/share/', '//?/UNC/h/s/', '//?/c:/', '\\\\h\\s\\', '//host//share/', '//?/UNC/h//s/',
                                 '\\\\h\\\\s\\']) + s
            gpat = G.escape(path, unix=not win)
            npath = path.replace('\\', '/') if win else path
            nodir_dir = bool(gfl & G.NODIR) and (npath.endswith('/') or npath.rstrip('/').split('/')[-1] in ('.', '..'))
            try:
                with common.time_limit(5):
                    ok = G.globmatch(path, gpat, flags=gfl)
                    nb = [(x, G.globmatch(x, gpat, flags=gfl)) for x in neighbours(R, path)]
            except common.CallTimeout:
                continue
            except Exception as e:  # noqa: BLE001
                ck.report(Failing(f'globmatch(p, escape(p)) raised {type(e).__name__}: {e}', {'api': 'globmatch', 's': path, 'flags': gfl}, True, repr(e)), None)
                continue
            sr.evaluations += 1 + len(nb)
            if not ok and not nodir_dir:
                kid = 'KF-D3p' if '\n' in path else None
                if kid is None and win and re.match(r'^(//[?.]/UNC/[^/]+/{2,}[^/]|//[^/?.][^/]*/{2,}[^/])', npath, re.I):
                    kid = 'KF-D33'      # a doubled separator between host and share: the two drive scanners disagree
                ck.report(Failing(f'globmatch({path!r}, escape(path)={gpat!r}) is False', {'api': 'globmatch', 's': path, 'pattern': gpat, 'flags': gfl}, True, False), kid)
                sr.histogram[kid or 'glob-self-mismatch'] = sr.histogram.get(kid or 'glob-self-mismatch', 0) + 1
            for x, m in nb:
                if m and not equiv(path, x, gci, win, True):
                    kid = 'KF-D3p' if ('\n' in x or '\n' in path) else None
                    ck.report(Failing(f'glob.escape({path!r}) also matches {x!r}', {'api': 'globmatch', 's': path, 'pattern': gpat, 'other': x, 'flags': gfl}, False, True), kid)
                    sr.histogram[kid or 'glob-extra-match'] = sr.histogram.get(kid or 'glob-extra-match', 0) + 1
            # ---- non-magic patterns are literal
            fl2 = gen.random_flags(R, fbits, 0.35, F.FORCEUNIX) & ~F.RAWCHARS
            if not F.is_magic(s, flags=fl2):
                ci2 = bool(fl2 & F.IGNORECASE) and not (fl2 & F.CASE)
                sr.histogram['non-magic'] = sr.histogram.get('non-magic', 0) + 1
                if not F.fnmatch(s, s, flags=fl2):
                    ck.report(Failing(f'non-magic {s!r} does not match itself', {'api': 'fnmatch', 's': s, 'flags': fl2}, True, False), None)
                for x in neighbours(R, s, 4):
                    if F.fnmatch(x, s, flags=fl2) and not equiv(s, x, ci2, False, False):
                        ck.report(Failing(f'non-magic {s!r} matches {x!r}', {'api': 'fnmatch', 's': s, 'other': x, 'flags': fl2}, False, True), None)
            if len(sr.samples) < 3 and len(s) > 3:
                sr.samples.append({'s': s, 'fnmatch.escape': pat, 'path': path, 'glob.escape': gpat, 'flags': hex(gfl)})
        # ---- every drive / UNC / device shape with magic characters in its components (Windows rules)
        shapes = list(gen.win_drive_patterns(3 if quick else 4))
        # ... and characters that are magic only under SPLIT / BRACE / NEGATE / EXTGLOB inside the prefix (added after seeded change C09k:
        # escape() stopped escaping `|` inside a drive / UNC prefix, so under SPLIT the escaped pattern was cut in two)
        shapes += ['//server/sh|are', '//ser|ver/share', '//?/UNC/h|x/s', '//./vol|ume', '//server/sh{a,b}re', '//?/UNC/h/s{1..2}', '//server/!share', '//ser(ver)/sh@(a)re',
                   '//server/sh|are/d|r', '//?/c:/a|b', '//server/share/a|b']
        for pth in shapes:
            if not pth:
                continue
            full = pth + ('/' if not pth.endswith('/') else '') + 'file'
            gp = G.escape(full, unix=False)
            sr.evaluations += 1
            try:
                with common.time_limit(5):
                    if not G.globmatch(full, gp, flags=G.FORCEWIN):
                        ck.report(Failing(f'globmatch({full!r}, escape(unix=False)={gp!r}, FORCEWIN) is False',
                                          {'api': 'globmatch', 's': full, 'pattern': gp, 'flags': G.FORCEWIN}, True, False), None)
                    for xfl in (G.SPLIT, G.BRACE, G.SPLIT | G.BRACE | G.EXTGLOB | G.NEGATE, G.EXTGLOB | G.MINUSNEGATE | G.NEGATE, G.GLOBTILDE | G.SPLIT):
                        sr.evaluations += 1
                        if not G.globmatch(full, gp, flags=G.FORCEWIN | xfl):
                            kid = 'KF-D28' if (full.replace('\\', '/')[:4] in ('//?/', '//./') and W._get_win_drive(gp, True, False)[1] is None) else None
                            ck.report(Failing(f'globmatch({full!r}, escape(unix=False)={gp!r}, FORCEWIN and flags {xfl:#x}) is False',
                                              {'api': 'globmatch', 's': full, 'pattern': gp, 'flags': G.FORCEWIN | xfl}, True, False), kid)
                        for x in (full.replace('|', 'Z'), full.split('|')[0], full.split('|')[-1], full.replace('{a,b}', 'a'), full.replace('!', '')):
                            if x and x != full and G.globmatch(x, gp, flags=G.FORCEWIN | xfl) and not equiv(full, x, True, True, True):
                                kid = 'KF-D28' if (full.replace('\\', '/')[:4] in ('//?/', '//./') and W._get_win_drive(gp, True, False)[1] is None) else None
                                ck.report(Failing(f'glob.escape({full!r}, unix=False) under flags {xfl:#x} also matches {x!r}',
                                                  {'api': 'globmatch', 's': full, 'pattern': gp, 'other': x, 'flags': G.FORCEWIN | xfl}, False, True), kid)
                    for x in neighbours(R, full, 8) + [full.replace('*', 'Z'), full.replace('[b]', 'b'), full.replace('?', 'q'), full.replace('!', 'x')]:
                        if x != full and G.globmatch(x, gp, flags=G.FORCEWIN) and not equiv(full, x, True, True, True):
                            # KF-D28: device prefix that the parser does not recognise as a drive
                            norm = full.replace('\\', '/')
                            kid = 'KF-D28' if (norm[:4] in ('//?/', '//./') and W._get_win_drive(gp, True, False)[1] is None) else None
                            ck.report(Failing(f'glob.escape({full!r}, unix=False) also matches {x!r}',
                                              {'api': 'globmatch', 's': full, 'pattern': gp, 'other': x, 'flags': G.FORCEWIN}, False, True), kid)
                            sr.histogram[kid or 'win-extra-match'] = sr.histogram.get(kid or 'win-extra-match', 0) + 1
                    # non-magic => literal, for the UNESCAPED shape under every combination of the two platform flags (both together
                    # cancel out: host rules): if glob.is_magic says no, the pattern matches itself and none of the spellings in which a
                    # metacharacter is replaced (added after seeded change C09h: glob.is_magic stopped cancelling FORCEWIN|FORCEUNIX, so
                    # `//server/sh*re/x` counted as a drive under is_magic while the matcher read it by Unix rules)
                    for pfl in (0, G.FORCEUNIX, G.FORCEWIN, G.FORCEWIN | G.FORCEUNIX):
                        sr.evaluations += 1
                        if G.is_magic(full, flags=pfl):
                            continue
                        sr.histogram['non-magic drive shape'] = sr.histogram.get('non-magic drive shape', 0) + 1
                        if not G.globmatch(full, full, flags=pfl):
                            ck.report(Failing(f'non-magic (glob.is_magic False) {full!r} does not match itself', {'api': 'globmatch', 's': full, 'flags': pfl}, True, False), None)
                        for x in (full.replace('*', 'Z'), full.replace('[b]', 'b'), full.replace('?', 'q'), full.replace('[', 'q')):
                            if x != full and G.globmatch(x, full, flags=pfl):
                                # KF-D28 (same site, seen through is_magic instead of escape): under Windows rules RE_WIN_DRIVE carves a
                                # drive out of an incomplete device prefix that the parser does not recognise as one
                                normf = full.replace('\\', '/')
                                winr = bool(pfl & G.FORCEWIN) and not pfl & G.FORCEUNIX
                                kid = 'KF-D28' if (winr and normf[:4] in ('//?/', '//./') and W._get_win_drive(full, True, False)[1] is None) else None
                                ck.report(Failing(f'non-magic (glob.is_magic False) {full!r} matches {x!r}', {'api': 'globmatch', 's': full, 'other': x, 'flags': pfl}, False, True), kid)
                                sr.histogram[kid or 'non-magic-extra-match'] = sr.histogram.get(kid or 'non-magic-extra-match', 0) + 1
            except common.CallTimeout:
                continue
        sr.note = ('self-match and one-edit neighbours of s against escape(s): fnmatch on names, glob on paths (Unix and Windows rules, '
                   'drive/UNC prefixes), non-magic patterns; equivalences allowed: case folding, separator spelling, duplicate/trailing separators')
    ck.search('escape-is-literal-api', s_search)

    def s_magic_hist(sr):
        # is_magic answers the same question whatever the process did before (added after seeded change C09i: the per-flag set of magic
        # symbols was cached and the glob splitter removed the braces from the SHARED set, so after any BRACE glob `is_magic('{a,b}', BRACE)`
        # was False although the pattern still expands): answers before, after a history of walker / matcher calls, and against the literal clause
        import os
        import shutil
        import tempfile
        from wcmatch import pathlib as WP
        tmp = tempfile.mkdtemp(prefix='c09h-', dir='/tmp')
        sr.note = ('is_magic (fnmatch and glob, str and bytes) on brace / split / tilde / extglob / negation / drive-shaped patterns under each of their '
                   'flags, asked before and after a history of glob / iglob / Path.glob / globmatch / translate calls with those flags (str, bytes, '
                   'FORCEWIN): same answers; and a pattern reported non-magic matches itself literally')
        try:
            open(os.path.join(tmp, 'a'), 'w').close()
            qs = [('{a,b}', 'BRACE'), ('x{1..3}', 'BRACE'), ('a|b', 'SPLIT'), ('~x', 'GLOBTILDE'), ('@(a)', 'EXTMATCH'), ('!a', 'NEGATE'), ('-a', 'MINUSNEGATE'),
                  ('//server/sh{a,b}re/f', 'BRACE'), ('//server/sh|re/f', 'SPLIT'), ('plain', 'BRACE'), ('a*', 'BRACE')]

            def ask():
                out = []
                for q, fn in qs:
                    for mod in (F, G):
                        if not hasattr(mod, fn):
                            continue
                        for plat in (0, mod.FORCEWIN, mod.FORCEUNIX):
                            for fl in (getattr(mod, fn) | plat, plat, getattr(mod, fn) | mod.NEGATE | plat):
                                out.append((mod.__name__, q, fl, mod.is_magic(q, flags=fl), mod.is_magic(q.encode(), flags=fl)))
                return out
            before = ask()
            for fn in ('BRACE', 'SPLIT', 'GLOBTILDE', 'EXTGLOB', 'NEGATE', 'MINUSNEGATE'):
                b = getattr(G, fn)
                for plat in (0, G.FORCEWIN):
                    for extra in (0, G.NEGATE, G.BRACE | G.SPLIT):
                        G.glob('{a,b}*', flags=b | plat | extra, root_dir=tmp)
                        list(G.iglob(b'{a,b}*', flags=b | plat | extra, root_dir=os.fsencode(tmp)))
                        list(WP.Path(tmp).glob('a|b', flags=(b | extra) & ~G.FORCEWIN))
                        G.globmatch('a', '{a,b}', flags=b | plat | extra)
                        G.translate(b'{a,b}', flags=b | plat | extra)
                        F.fnmatch('a', '{a,b}|c', flags=(F.BRACE | F.SPLIT) | (F.FORCEWIN if plat else 0))
            after = ask()
            sr.evaluations = len(before) * 2
            for x, y in zip(before, after):
                if x != y:
                    ck.report(Failing(f'{x[0]}.is_magic({x[1]!r}, flags={x[2]:#x}) changes after other calls in the process: (str, bytes) = {x[3:]} before, {y[3:]} after',
                                      {'api': x[0] + '.is_magic', 'pattern': x[1], 'flags': x[2], 'history': 'glob / iglob / Path.glob / globmatch / translate / fnmatch calls with BRACE, SPLIT, … (str, bytes, FORCEWIN)'},
                                      list(x[3:]), list(y[3:])), None)
                    sr.histogram['FAIL'] = sr.histogram.get('FAIL', 0) + 1
            # non-magic => literal, after the history
            for mod_name, q, fl, ms, mb in after:
                mod = F if mod_name.endswith('fnmatch') else G
                if not ms and not (fl & mod.FORCEWIN and not fl & mod.FORCEUNIX and q.startswith('//')):
                    hit = [n for n in ('a', 'b', 'x1', 'x', '@(a)', 'server') if n != q and (mod.fnmatch(n, q, flags=fl) if mod is F else mod.globmatch(n, q, flags=fl))]
                    if hit:
                        ck.report(Failing(f'{mod_name}.is_magic({q!r}, flags={fl:#x}) is False but the pattern matches {hit}', {'api': mod_name + '.is_magic', 'pattern': q, 'flags': fl}, 'literal', hit), None)
            sr.distinct = len(qs)
        finally:
            shutil.rmtree(tmp, ignore_errors=True)
    ck.search('is_magic-histories', s_magic_hist)
    if drv:
        drv.close()
    return ck.finish()


def replay(path: str) -> int:
    import json
    common.import_wcmatch()
    from wcmatch import glob as G, fnmatch as F
    for f in json.load(open(path)).get('failing', []):
        i = f['input']
        mod = G if i['api'] == 'globmatch' else F
        fn = G.globmatch if i['api'] == 'globmatch' else F.fnmatch
        print(i, '->', fn(i.get('other', i['s']), i.get('pattern', i['s']), flags=i['flags']))
    return 0

"""C06 — `**` does not traverse symlinked directories unless asked; glob terminates.

Proof part : Properties/C06.lean — fuel stability + no exhaustion above the tree height for
             every tree (cycles included) when FOLLOW/`***` are off; trace invariant (no link
             at a `**`-matched position of a listed directory); follow-flag table for every
             flag word; MATCHBASE prefix; written links are followed (witness).
Tie        : K5 on trees biased towards symlink cycles: exact result sequence and exact
             os.scandir call sequence (interleaved), `**`/`***` in every position, x
             {FOLLOW (never on cyclic trees), GLOBSTARLONG, MATCHBASE, DOTGLOB, …}.
             K6 on the same trees: globmatch/globfilter with REALPATH on every entry (also through
             links) vs `Match.matchReal`.
Search     : on the real trace, independent of the model: (a) without FOLLOW/`***` every run on
             a cyclic tree finishes and lists no directory more often than the pattern has
             parts; (b) for patterns `prefix/**[/last]` no listed directory has a symlink at a
             position behind the prefix; (c) `link/*` does list the link's target; (d) REALPATH: for
             `prefix/**` no accepted path has a symlinked directory behind the prefix.
"""
from __future__ import annotations
import os
import warnings

import common
import k5_glob as K
from framework import Check, Failing

warnings.simplefilter('ignore')
TARGETS = ['WcModel.Properties.C06']

STAR_SEGS = ['**', '**', '***', '*', 'a', 'b', '.h', 'A', 'ab', '[ab]', '?', '.*', '..', '.', 'a*', '@(a|b)', '!(a)']


def _cyclic_spec(R):
    """a tree that almost always contains a link to an ancestor, a link to a sibling
    directory, a link to a hidden directory, a link to a file and a dangling link"""
    spec = K._random_spec(R)
    dirs = [''] + [rel for rel, k, _ in spec if k == 'dir']
    have = {rel for rel, _, _ in spec}
    for _ in range(R.randint(1, 3)):
        d = R.choice(dirs)
        nm = R.choice(['a', 'b', 'A', 'ab', '.h', 'a.b'])
        rel = os.path.join(d, nm) if d else nm
        if rel in have:
            continue
        depth = rel.count('/')
        up = R.randint(0, depth)
        spec.append((rel, 'link', '/'.join(['..'] * up) if up else '.'))
        have.add(rel)
    return spec


def _cases(R, G, t, n):
    out = []
    for _ in range(n):
        k = R.randint(1, 4)
        segs = [R.choice(STAR_SEGS) for _ in range(k)]
        if not any(s in ('**', '***') for s in segs):
            segs[R.randrange(k)] = R.choice(['**', '***'])
        if R.random() < 0.3 and t.names:
            segs[R.randrange(k)] = G.escape(R.choice(sorted(t.names)))
        p = '/'.join(segs) + ('/' if R.random() < 0.2 else '')
        fl = G.GLOBSTAR if R.random() < 0.85 else 0
        tmpl = None
        if R.random() < 0.2 and t.names:
            # `***` (follows links) BEFORE a `**` (must not), separated by a literal that exists in the tree
            nm = sorted(t.names)
            tmpl = R.choice(['***/{a}/**', '***/{a}/**/{b}', '{a}/***/{b}/**', '***/{a}/**/*', '**/{a}/***', '***/{a}/**/{b}/**'])
            p = tmpl.format(a=G.escape(R.choice(nm)), b=G.escape(R.choice(nm)))
            fl |= G.GLOBSTAR | G.GLOBSTARLONG
        for nm, pr in (('GLOBSTARLONG', 0.4), ('FOLLOW', 0.4), ('MATCHBASE', 0.25), ('DOTGLOB', 0.3), ('EXTGLOB', 0.5),
                       ('MARK', 0.1), ('NODIR', 0.1), ('SCANDOTDIR', 0.1), ('IGNORECASE', 0.1)):
            if R.random() < pr and not (tmpl and nm in ('MATCHBASE', 'IGNORECASE', 'NODIR', 'FOLLOW')):
                fl |= getattr(G, nm)
        if tmpl is None and R.random() < 0.08 and t.names:
            p = G.escape(R.choice(sorted(t.names)))           # slash-less literal under MATCHBASE: the implicit prefix is the only globstar
            fl = (fl | G.MATCHBASE) & ~(G.IGNORECASE | G.NODIR | G.FOLLOW)
            if R.random() < 0.5:
                fl &= ~(G.GLOBSTAR | G.GLOBSTARLONG)
        if tmpl is None and R.random() < 0.08:
            # only exclusions + NEGATEALL: the IMPLIED inclusion pattern is `**` — under GLOBSTARLONG it ignores FOLLOW like any written `**`
            # (added after seeded change C06j: the implied pattern became `***` under GLOBSTARLONG|FOLLOW)
            p = R.choice(['!zz-none*', '!*.none', '!**/zz-none'])
            fl = G.NEGATE | G.NEGATEALL | G.GLOBSTAR | (G.DOTGLOB if R.random() < 0.3 else 0)
            if R.random() < 0.7:
                fl |= G.GLOBSTARLONG | G.FOLLOW
            elif R.random() < 0.5:
                fl |= G.GLOBSTARLONG
            out.append(K.Case(p, fl, None, R.choice(['root_dir', 'cwd', 'dir_fd'])))
            continue
        follows = bool(fl & G.FOLLOW) or (bool(fl & G.GLOBSTARLONG) and '***' in p)
        if t.cyclic and follows:
            # never walk a cycle with FOLLOW / `***` (it does not terminate): keep a few such
            # cases, cut off by the scan budget, to compare the common prefix with the model
            if R.random() < 0.9:
                fl &= ~G.FOLLOW
                if '***' in p:
                    fl &= ~G.GLOBSTARLONG
                out.append(K.Case(p, fl, None, R.choice(['root_dir', 'cwd', 'dir_fd'])))
            else:
                out.append(K.Case(p, fl, None, 'root_dir', fuel=5))
        else:
            out.append(K.Case(p, fl, None, R.choice(['root_dir', 'cwd', 'dir_fd', 'bytes'])))
    return out


def run(ck: Check) -> int:
    common.import_wcmatch()
    from wcmatch import glob as G, _wcparse as W, util as U
    ck.build()
    ck.audit()
    R = common.rng('C06')
    drv = common.Driver() if ck.driver_ok else None
    quick = ck.tier == 'quick'
    ntrees, per = (400, 20) if quick else (5000, 24)
    found: list = []
    stats = {'runs_on_cyclic_trees': 0, 'finished': 0, 'cut_off(FOLLOW/*** on a cycle, not a verdict)': 0,
             'link_position_checks': 0, 'written_link_listings': 0}

    k6 = {'evaluations': 0, 'accepted': 0, 'rejected': 0, 'disagree': []}

    def realpath_side(t, c, res):
        """K6 + clause (d) for this case"""
        fl = c.flags | G.REALPATH
        cands = K.candidates(t, res)
        try:
            pe, ee = K.match_expansions(W, U, G, c.pats, fl, None)
        except Exception:  # noqa: BLE001
            return
        # through the same root mechanism as the glob run (the dir_fd branch of _fs_match is separate code: seeded change C06c)
        # ... and through every way of holding the matcher: the call itself, a compiled object, its pickle / deepcopy copies (seeded change C06h)
        api = ('globfilter', 'pickled', 'compiled', 'deepcopy', 'globfilter', 'pickled-twice')[stats.get('realpath_cases', 0) % 6]
        stats['realpath_cases'] = stats.get('realpath_cases', 0) + 1
        stats['via ' + api] = stats.get('via ' + api, 0) + 1
        rs, bits = K.run_real_match(G, t, cands, c.pats, fl, None, api, c.mode if c.mode in ('root_dir', 'cwd', 'dir_fd') else 'root_dir')
        m = drv.ask(K.match_line(t, fl, pe, ee, cands))
        if m == 'timeout':
            return
        k6['evaluations'] += len(cands)
        if rs != 'ok' or not m.startswith('ok '):
            k6['disagree'].append({'stream': 'K6', **c.to_json(G, t), 'code': (rs, bits[:60]), 'model': m[:60]})
            return
        k6['accepted'] += bits.count('1')
        k6['rejected'] += bits.count('0')
        if m[3:] != bits:
            d = [(x, a, b) for x, a, b in zip(cands, bits, m[3:]) if a != b][:4]
            k6['disagree'].append({'stream': 'K6', **c.to_json(G, t), 'path/code/model': d})
        segs = [s for s in c.pats.split('/') if s]
        follows = bool(fl & G.FOLLOW and not fl & G.GLOBSTARLONG)
        # clause (d'), added after seeded change C06b (a `***` switched the capture of every later `**` off):
        # literal segments, exactly one `**`, any number of `***` (GLOBSTARLONG), no adjacent stars — then REALPATH
        # matching must not accept an existing path that glob (same flags) does not return and that crosses a
        # symlinked directory before its last piece
        long = bool(fl & G.GLOBSTARLONG)
        lits = [s for s in segs if s not in ('**', '***')]
        # … or, under MATCHBASE, a single literal segment (the implicit `**/` prefix is the one globstar; GLOBSTAR may be off: seeded C06d)
        mb_lit = bool(fl & G.MATCHBASE) and len(segs) == 1 and segs[0] not in ('**', '***', '.', '..') and not G.is_magic(segs[0], flags=fl) \
            and not (long and fl & G.FOLLOW) and not follows and not fl & (G.IGNORECASE | G.NODIR) and '/' not in c.pats
        if mb_lit or (not follows and fl & G.GLOBSTAR and not fl & (G.MATCHBASE | G.IGNORECASE | G.NODIR) and segs.count('**') == 1
                and (long or '***' not in segs) and not c.pats.endswith('/') and not c.pats.startswith('/')
                and all(s not in ('.', '..') and not G.is_magic(s, flags=fl) for s in lits)
                and not any(segs[i] in ('**', '***') and segs[i + 1] in ('**', '***') for i in range(len(segs) - 1))):
            got = {r.rstrip('/') for r in res}
            for x, b in zip(cands, bits):
                if b != '1' or x.startswith(('/', './')) or x.rstrip('/') in got:
                    continue
                comps = [k for k in x.rstrip('/').split('/') if k]
                stats['realpath_vs_glob_link_checks'] = stats.get('realpath_vs_glob_link_checks', 0) + 1
                if any(os.path.islink(os.path.join(t.root, *comps[:j])) and os.path.isdir(os.path.join(t.root, *comps[:j]))
                       for j in range(1, len(comps))):
                    found.append(Failing(f'globmatch(REALPATH) accepted {x!r}, which crosses a symlinked directory and which glob does not return',
                                         {**c.to_json(G, t), 'path': x}, False, True, 'wcmatch/_wcmatch.py:100-133; wcmatch/_wcparse.py:_handle_star (capture)'))
        if follows or not fl & G.GLOBSTAR or fl & G.MATCHBASE or segs.count('**') != 1 or segs[-1] != '**' or '***' in segs:
            return
        pre = segs[:-1]
        if not all(s not in ('.', '..') and not G.is_magic(s, flags=fl) for s in pre) or fl & G.IGNORECASE:
            return
        for x, b in zip(cands, bits):
            if b != '1' or x.startswith('/') or x.startswith('./'):
                continue
            comps = [k for k in x.rstrip('/').split('/') if k]
            stats['realpath_link_checks'] = stats.get('realpath_link_checks', 0) + 1
            for j in range(len(pre) + 1, len(comps)):          # the last piece is exempt
                if os.path.islink(os.path.join(t.root, *comps[:j])):
                    found.append(Failing(f'globmatch(REALPATH) accepted {x!r} through the symlink {"/".join(comps[:j])!r} at a ** position',
                                         c.to_json(G, t), False, True, 'wcmatch/_wcmatch.py:100-133'))

    def on_case(t, c, st, ev, ms, mev):
        if st == 'ok' and c.mode in ('root_dir', 'cwd', 'dir_fd') and drv is not None:
            realpath_side(t, c, [p for k, p in ev if k == 'y'])
        follows = bool(c.flags & G.FOLLOW and not c.flags & G.GLOBSTARLONG) or \
            (bool(c.flags & G.GLOBSTARLONG) and '***' in c.pats) or \
            bool(c.flags & G.GLOBSTARLONG and c.flags & G.FOLLOW and c.flags & G.MATCHBASE)
        if t.cyclic:
            stats['runs_on_cyclic_trees'] += 1
        if st != 'ok':
            stats['cut_off(FOLLOW/*** on a cycle, not a verdict)'] += 1
            if not follows:
                found.append(Failing('glob did not finish within the scan budget although neither FOLLOW nor *** is in force',
                                     c.to_json(G, t), 'terminates', st, 'wcmatch/glob.py:687-689'))
            return
        stats['finished'] += 1
        scans = [p for k, p in ev if k == 's']
        if follows or c.mode == 'bytes':
            return
        # (a) no directory is listed more often than there are parts (+1 for the starting scan)
        nparts = len([s for s in c.pats.split('/') if s]) + 2
        for p in set(scans):
            if scans.count(p) > nparts:
                found.append(Failing(f'directory {p!r} listed {scans.count(p)} times by one pattern of {nparts - 2} segments',
                                     c.to_json(G, t), f'<= {nparts}', scans.count(p), 'wcmatch/glob.py:666-689'))
        # (b) shape prefix/**[/last], prefix literal without . and ..: positions behind the
        # prefix are matched by `**`, so no listed directory may have a link there
        segs = [s for s in c.pats.split('/') if s]
        if c.flags & G.GLOBSTAR and not c.flags & G.MATCHBASE and '**' in segs:
            i = segs.index('**')
            pre, post = segs[:i], segs[i + 1:]
            lit = all(s not in ('.', '..') and not G.is_magic(s, flags=c.flags) for s in pre)
            if lit and len(post) <= 1 and '***' not in segs:
                for p in scans:
                    comps = [x for x in p.split('/') if x]
                    if len(comps) <= len(pre):
                        continue
                    stats['link_position_checks'] += 1
                    for j in range(len(pre) + 1, len(comps) + 1):
                        if os.path.islink(os.path.join(t.root, *comps[:j])):
                            found.append(Failing(f'{p!r} was listed through the symlink {"/".join(comps[:j])!r} at a position matched by **',
                                                 c.to_json(G, t), 'no listing through a link in a ** position', p,
                                                 'wcmatch/glob.py:687-689'))
        # (b') only exclusions + NEGATEALL: the implied `**` — no listed directory may lie behind a link
        if c.flags & G.NEGATEALL and c.flags & G.NEGATE and c.pats.startswith('!') and '|' not in c.pats:
            for p in scans:
                comps = [x for x in p.split('/') if x]
                stats['link_position_checks'] += 1
                for j in range(1, len(comps) + 1):
                    if os.path.islink(os.path.join(t.root, *comps[:j])):
                        found.append(Failing(f'{p!r} was listed through the symlink {"/".join(comps[:j])!r} by the pattern implied by NEGATEALL (`**`)',
                                             c.to_json(G, t), 'no listing through a link in a ** position', p, 'wcmatch/glob.py:Glob._parse_patterns (NEGATEALL default)'))
                        break
        # (c) a written link is followed
        if len(segs) >= 2 and not G.is_magic(segs[0], flags=c.flags) and segs[0] not in ('.', '..'):
            first = os.path.join(t.root, segs[0])
            if os.path.islink(first) and os.path.isdir(first) and not c.flags & G.IGNORECASE and not c.pats.startswith('/'):
                stats['written_link_listings'] += 1
                if segs[0] not in scans:
                    found.append(Failing(f'written link {segs[0]!r} (to a directory) was not listed', c.to_json(G, t),
                                         'listed', scans[:5], 'wcmatch/glob.py:842-850'))

    def s_k5(sr):
        sr.note = ('K5: iglob event sequence (os.scandir/os.open calls interleaved with results) vs the Lean walker, trees '
                   'with symlinks to ancestors (cycles), siblings, files, hidden directories and nowhere; `**`/`***` in every '
                   'position; FOLLOW/`***` on cyclic trees only under a scan budget (common prefix compared)')
        K.k5_loop(sr, drv, G, W, U, R, ntrees, lambda R_, t: _cases(R_, G, t, per), on_case, spec_for=_cyclic_spec)
    ck.stream('K5-glob-events', s_k5)

    def s_k6(sr):
        sr.note = 'K6: globfilter(REALPATH) on every entry (also through links) and every glob result vs matchReal, same trees'
        sr.evaluations = k6['evaluations']
        sr.distinct = k6['evaluations']
        sr.histogram = {'accepted': k6['accepted'], 'rejected': k6['rejected']}
        for d in k6['disagree']:
            sr.disagree(d)
    ck.stream('K6-matchReal', s_k6)

    def s_search(sr):
        sr.note = ('real traces only: termination within the scan budget without FOLLOW/***; listing multiplicity; no '
                   'symlink at a **-matched position of any listed directory for patterns lit/**[/last]; written links listed')
        sr.histogram = dict(stats)
        sr.evaluations = stats['finished'] + stats['cut_off(FOLLOW/*** on a cycle, not a verdict)']
        sr.distinct = stats['link_position_checks']
        for f in found:
            ck.report(f, None)
    ck.search('scandir-through-links', s_search)

    def s_hist(sr):
        import types
        import k9_cache as K9
        sr.note = ('"globmatch with REALPATH applies the same rule to the path it is given": the rule is applied to the tree as it is '
                   'at the call — two roots with the same relative names (directory vs link), a directory replaced by a link and back, '
                   'root given by root_dir / cwd / dir_fd (fd numbers are reused), single globmatch calls, globfilter, a reused compiled '
                   'matcher and glob, each answer vs the same call alone in a fresh interpreter (added after seeded change C06e: the '
                   'symlink lookup table of _Match.match survived from one call to the next)')
        sr.evaluations = K9.fs_change_histories(types.SimpleNamespace(G=G), lambda what, inp, exp, obs: ck.report(
            Failing(what, inp, exp, obs, site='wcmatch/_wcmatch.py:_Match.match (symlink lookups are per call)'), None))
        sr.distinct = sr.evaluations
    ck.search('symlink-rule-after-tree-change', s_hist)
    if drv:
        drv.close()
    return ck.finish(assumptions=[
        'the OS resolves paths compositionally (the walker model carries a location next to every display path)',
        'termination of CPython itself is not a Lean object: the theorem bounds the model, K5 ties the listings'])


def replay(path: str) -> int:
    import json
    common.import_wcmatch()
    from wcmatch import glob as G
    data = json.load(open(path))
    for f in data.get('failing', []):
        i = f['input']
        t = K.make_tree(common.rng('replay'), [tuple(x) for x in i['tree']])
        try:
            st, ev = K.run_real(G, t, i['pattern'], i['flags_int'], i.get('exclude'), i.get('root', 'root_dir'))
            print('replayed:', st, ev[:40])
        finally:
            t.remove()
    return 0

"""C18 — bytes and str inputs behave identically.

Proof  : Properties/C18.lean — bytes/str POSIX tables and all helper-regex twins extracted from
         the source have identical text (a changed twin breaks a proof obligation); equal
         `Re.strip` ⇒ equal full matches for every subject (certificate); the two spellings of
         the full range agree on code units < 256.
Tie    : K1 regex text for bytes patterns; certificate strip(parse bytes p) = strip(parse str p)
         per ASCII pattern.
Search : every API on x and encode(x): match/filter booleans equal, translate returns the
         encoded regexes, escape the encoded escape, glob / WcMatch the encoded paths in the same
         order on generated trees; single bytes 0x80-0xff against every bracket/POSIX form;
         mixed str/bytes raise TypeError.
"""
from __future__ import annotations
import os
import shutil
import tempfile
import warnings

import common
import gen
import pathcheck as P
import streams
from framework import Check, Failing

warnings.simplefilter('ignore')
TARGETS = ['WcModel.Properties.C18']


def run(ck: Check) -> int:
    common.import_wcmatch()
    from wcmatch import glob as G, fnmatch as F, _wcparse as W, wcmatch as WM
    ck.build()
    ck.audit()
    R = common.rng('C18')
    quick = ck.tier == 'quick'
    drv = common.Driver() if ck.driver_ok else None
    n = 3000 if quick else 40000
    pats = [(gen.gen_seq(R, 2, True, R.randint(1, 4)) if R.random() < 0.5 else P.gen_path(R)) for _ in range(n)]
    pats += [p for p in (gen.random_pattern(R, 7) for _ in range(n)) if all(ord(c) < 128 for c in p)]
    ib = [W.PATHNAME, W.PATHNAME, W.DOTMATCH, W.EXTMATCH, W.EXTMATCH, W.GLOBSTAR, W.MATCHBASE, W.NODOTDIR, W.IGNORECASE, W.REALPATH, W._TRANSLATE]

    def s_k1(sr):
        cases = [(p, streams.reachable(gen.random_flags(R, ib, 0.35, W.FORCEUNIX if R.random() < 0.8 else W.FORCEWIN)), True) for p in pats]
        streams.k1(sr, drv, cases)
        sr.note = 'K1 regex text for bytes patterns (Latin-1 decoded by the code, is_bytes tables)'
    ck.stream('K1-bytes-text', s_k1)

    def s_cert(sr):
        cases = [(p, streams.reachable(gen.random_flags(R, ib, 0.35, W.FORCEUNIX))) for p in pats]
        outs = drv.ask_many([f'certb {fl} {common.enc(p)}' for p, fl in cases])
        for (p, fl), o in zip(cases, outs):
            sr.evaluations += 1
            k = ' '.join(o.split(' ')[:2])
            sr.histogram[k] = sr.histogram.get(k, 0) + 1
            if o in ('ok same', 'ok sameerr'):
                sr.distinct += 1
            else:
                sr.disagree({'stream': 'certb', 'pattern': p, 'flags': fl, 'reply': o[:400]})
        sr.samples.append({'certificate': 'strip(parse bytes p) = strip(parse str p) (full range spellings identified)', 'n': sr.distinct})
        sr.note = 'bytes-vs-str language certificate per ASCII pattern'
    ck.stream('cert-bytes-eq-str', s_cert)

    names = [x for x in gen.names_upto('ab./', 3) if x] + ['a.b', 'ab/a', 'a/b/', '.a', 'A']

    def s_search(sr):
        deep = ck.deep()
        m = len(pats) if (deep or not quick) else 2500
        fbits = [F.CASE, F.IGNORECASE, F.NEGATE, F.MINUSNEGATE, F.DOTMATCH, F.EXTMATCH, F.EXTMATCH, F.BRACE, F.SPLIT, F.NEGATEALL, F.RAWCHARS]
        gbits = fbits + [G.GLOBSTAR, G.GLOBSTAR, G.MATCHBASE, G.NODIR, G.NODOTDIR]
        e = lambda s: s.encode('latin-1')  # noqa: E731
        for k in range(m):
            p = pats[k]
            use_glob = k % 2 == 1
            mod, bits = (G, gbits) if use_glob else (F, fbits)
            fl = gen.random_flags(R, bits, 0.3, mod.FORCEUNIX)
            sr.evaluations += 1
            try:
                with common.time_limit(5):
                    try:
                        ts = mod.translate(p, flags=fl)
                        es = None
                    except Exception as ex:  # noqa: BLE001
                        ts, es = None, type(ex).__name__
                    try:
                        tb = mod.translate(e(p), flags=fl)
                        eb = None
                    except Exception as ex:  # noqa: BLE001
                        tb, eb = None, type(ex).__name__
                    if es != eb:
                        ck.report(Failing(f'translate raises {es} for str and {eb} for bytes', {'api': mod.__name__, 'pattern': p, 'flags': fl}, es, eb), None)
                        continue
                    if ts is None or tb is None:
                        continue
                    # the one sanctioned difference: the full-range spelling of an emptied class (UNICODE_RANGE vs ASCII_RANGE)
                    er = lambda x: x.replace('\u0000-\U0010ffff', '\x00-\xff').encode('latin-1')  # noqa: E731
                    if ([er(x) for x in ts[0]], [er(x) for x in ts[1]]) != (tb[0], tb[1]):
                        ck.report(Failing('translate(bytes) is not the encoded translate(str)', {'api': mod.__name__, 'pattern': p, 'flags': fl}, ts, tb), None)
                    ms, mb = mod.compile(p, flags=fl), mod.compile(e(p), flags=fl)
                    for x in names:
                        if bool(ms.match(x)) != bool(mb.match(e(x))):
                            ck.report(Failing(f'match differs for str and bytes on {x!r}', {'api': mod.__name__, 'pattern': p, 'name': x, 'flags': fl}, bool(ms.match(x)), bool(mb.match(e(x)))), None)
                    if [e(x) for x in ms.filter(names)] != mb.filter([e(x) for x in names]):
                        ck.report(Failing('filter differs for str and bytes', {'api': mod.__name__, 'pattern': p, 'flags': fl}, None, None), None)
                    if e(mod.escape(p)) != mod.escape(e(p)):
                        ck.report(Failing('escape(bytes) is not the encoded escape(str)', {'api': mod.__name__, 'pattern': p}, mod.escape(p), mod.escape(e(p))), None)
                    # mixed types
                    for a, b in ((p, e('a')), (e(p), 'a')):
                        try:
                            cm = mod.compile(a, flags=fl)
                            cm.match(b)
                            kid = 'KF-D25' if not cm._matcher._include else None   # nothing to apply: no inclusion pattern
                            ck.report(Failing('mixed str/bytes did not raise TypeError', {'api': mod.__name__, 'pattern': repr(a), 'name': repr(b), 'flags': fl}, 'TypeError', 'no exception'), kid)
                        except TypeError:
                            pass
                        except Exception as ex:  # noqa: BLE001
                            ck.report(Failing(f'mixed str/bytes raised {type(ex).__name__}', {'api': mod.__name__, 'pattern': repr(a), 'name': repr(b), 'flags': fl}, 'TypeError', type(ex).__name__), None)
            except common.CallTimeout:
                continue
            sr.distinct += 1
            if len(sr.samples) < 3:
                sr.samples.append({'api': mod.__name__, 'pattern': p, 'flags': hex(fl)})
        # Windows rules and the string-only helpers: is_magic / escape / translate / match twins under FORCEWIN, drive and UNC
        # prefixes written with `/` and with escaped backslashes (added after seeded change C18g: is_magic's membership loops
        # became set.isdisjoint, which iterates a bytes drive as ints and never finds the bytes member b'\\' of the drive set)
        wpats = ['c:\\\\file', 'c:/file', '\\\\\\\\server\\\\share\\\\x', '//server/share/x', '\\\\\\\\?\\\\c:\\\\x', '//?/c:/x', 'c:\\\\*', 'c:/[a]',
                 'a\\\\b', 'a/b', 'plain', 'a*', '~x', '{a,b}', 'a|b', '!a', '-a', '@(a)', '//?/UNC/h/s/x', '\\\\\\\\?\\\\UNC\\\\h\\\\s', 'c:', 'c:x', '\\\\', '/',
                 # D38 (repaired): `\\N{…}` was one token of the str normaliser even without RAWCHARS, so a `\\/` inside it was not rewritten (bytes: it was)
                 '\\N{\\/}', 'x\\N{a\\/b}y', '\\N{a}', '\\N{']
        wnames = ['c:\\file', 'c:/file', 'C:/FILE', '//server/share/x', '\\\\server\\share\\x', 'a\\b', 'a/b', 'plain', 'ab', 'a']
        for wp in wpats:
            for sub in range(16):
                for mod in (F, G):
                    fl = mod.FORCEWIN | (mod.EXTMATCH if sub & 1 else 0) | (mod.BRACE if sub & 2 else 0) | (mod.NEGATE if sub & 4 else 0) | (mod.SPLIT if sub & 8 else 0)
                    if mod is G and sub & 4:
                        fl |= G.GLOBTILDE
                    sr.evaluations += 1
                    try:
                        with common.time_limit(5):
                            for what, fs, fb in (('is_magic', lambda: mod.is_magic(wp, flags=fl), lambda: mod.is_magic(e(wp), flags=fl)),
                                                 ('translate', lambda: [[x.replace('\u0000-\U0010ffff', '\x00-\xff').encode('latin-1') for x in part] for part in mod.translate(wp, flags=fl)],
                                                  lambda: [list(part) for part in mod.translate(e(wp), flags=fl)]),
                                                 ('match', lambda: [bool(mod.compile(wp, flags=fl).match(x)) for x in wnames],
                                                  lambda: [bool(mod.compile(e(wp), flags=fl).match(e(x))) for x in wnames])):
                                try:
                                    rs = fs()
                                except Exception as ex:  # noqa: BLE001
                                    rs = type(ex).__name__
                                try:
                                    rb = fb()
                                except Exception as ex:  # noqa: BLE001
                                    rb = type(ex).__name__
                                if rs != rb:
                                    kid = None          # (KF-D38 — `\\N{\\/}` under Windows rules — is repaired: never attributed)
                                    ck.report(Failing(f'{what}(bytes) differs from {what}(str) under Windows rules', {'api': f'{mod.__name__}.{what}', 'pattern': wp, 'flags': fl},
                                                      repr(rs)[:200], repr(rb)[:200]), kid)
                    except common.CallTimeout:
                        continue
            if e(G.escape(wp, unix=False)) != G.escape(e(wp), unix=False):
                ck.report(Failing('glob.escape(bytes, unix=False) is not the encoded escape(str)', {'api': 'glob.escape', 'pattern': wp}, G.escape(wp, unix=False), G.escape(e(wp), unix=False)), None)
        # single bytes 0x80-0xff against bracket / POSIX forms
        forms = ['[[:alpha:]]', '[![:alpha:]]', '[[:ascii:]]', '[![:ascii:]]', '[[:print:]]', '[[:word:]]', '[a-\xff]', '[!a-z]', '?', '*', '[\x80-\x90]', '[[:punct:][:digit:]]',
                 # classes emptied by the reversed-range check become "match nothing" / "match any code unit" (ASCII_RANGE vs
                 # UNICODE_RANGE twins; added after seeded change C18a)
                 '[z-a]', '[!z-a]', '[9-0z-a]', '[!9-0]', '[^z-a]', '[b-a]*', '?[!b-a]']
        for fm in forms:
            mb = F.compile(fm.encode('latin-1'), flags=F.FORCEUNIX)
            ms = F.compile(fm, flags=F.FORCEUNIX)
            for b in range(0x80, 0x100):
                sr.evaluations += 1
                subj = bytes([b]) if len(fm) < 7 or fm.startswith('[') and fm.endswith(']') else bytes([b, b])
                if bool(mb.match(subj)) != bool(ms.match(subj.decode('latin-1'))):
                    ck.report(Failing(f'byte {b:#x} vs Latin-1 char differ for {fm!r}', {'api': 'fnmatch', 'pattern': fm, 'byte': b}, bool(ms.match(chr(b))), bool(mb.match(bytes([b])))), None)
        # glob / WcMatch on a generated tree with str vs bytes roots
        tmp = tempfile.mkdtemp(prefix='c18-', dir='/tmp')
        try:
            for d in ('a/b', 'a/.h', 'c'):
                os.makedirs(os.path.join(tmp, d))
            for f in ('x.txt', '.hid', 'a/y.txt', 'a/b/z', 'c/w.py', 'a/.h/q', 'two\nlines.txt', 'a/b/x\ny'):   # names with a newline: seeded change C18d
                open(os.path.join(tmp, f), 'w').close()
            os.symlink('a', os.path.join(tmp, 'la'))
            for p in ['*', '**', '**/*.txt', 'a/*', '*/', '**/', '.*', '{a,c}/*', 'a/**/z', '!(a)', '**/[xyz]*'] + [P.gen_path(R) for _ in range(150 if quick else 1500)]:
                fl = gen.random_flags(R, [G.GLOBSTAR, G.GLOBSTAR, G.DOTGLOB, G.EXTGLOB, G.BRACE, G.MARK, G.NODIR, G.MATCHBASE], 0.4)
                if p.startswith('/') or '..' in p:
                    continue          # never walk outside the temporary tree
                sr.evaluations += 1
                try:
                    with common.time_limit(5):
                        rs = G.glob(p, flags=fl, root_dir=tmp)
                except common.CallTimeout:
                    continue
                except Exception:  # noqa: BLE001
                    continue          # the str call itself is refused (pattern limit, syntax): nothing to compare
                # the bytes twin through every way of naming the root (root_dir, dir_fd, the working directory): the encoded str
                # result, same order; an exception where the str call answered is a difference (added after D36: os.scandir on
                # a descriptor yields str names, glob(b'*.txt', dir_fd=fd) raised TypeError and glob(b'x.txt', dir_fd=fd) was [])
                want = [os.fsencode(x) for x in rs]
                fd = os.open(tmp, os.O_RDONLY)
                old = os.getcwd()
                try:
                    for how, call in (('root_dir', lambda: G.glob(e(p), flags=fl, root_dir=os.fsencode(tmp))),
                                      ('dir_fd', lambda: G.glob(e(p), flags=fl, dir_fd=fd)),
                                      ('cwd', lambda: G.glob(e(p), flags=fl)),
                                      ('str dir_fd', lambda: [os.fsencode(x) for x in G.glob(p, flags=fl, dir_fd=fd)])):
                        sr.evaluations += 1
                        try:
                            if how == 'cwd':
                                os.chdir(tmp)
                            with common.time_limit(5):
                                rb = call()
                        except common.CallTimeout:
                            continue
                        except Exception as ex:  # noqa: BLE001
                            rb = f'{type(ex).__name__}: {ex}'
                        finally:
                            os.chdir(old)
                        if rb != want:
                            ck.report(Failing(f'glob(bytes pattern, root given as {how}) is not the encoded glob(str root), same order',
                                              {'api': 'glob', 'pattern': p, 'flags': fl, 'root': how}, rs, rb if isinstance(rb, str) else [repr(x) for x in rb]), None)
                finally:
                    os.close(fd)
            for fp, ep in [('*.txt', None), ('*', 'a'), ('*.txt|*.py', 'b'), ('', '.h'), (None, None), (None, 'a'), ('!*.txt', None)]:
                for wfl in (WM.RECURSIVE, WM.RECURSIVE | WM.HIDDEN, WM.RECURSIVE | WM.FILEPATHNAME | WM.DIRPATHNAME):
                    sr.evaluations += 1
                    rs = WM.WcMatch(tmp, fp, ep, wfl).match()
                    rb = WM.WcMatch(os.fsencode(tmp), e(fp) if fp is not None else None, e(ep) if ep is not None else None, wfl).match()
                    if [os.fsencode(x) for x in rs] != rb:
                        ck.report(Failing('WcMatch(bytes root) is not the encoded WcMatch(str root)', {'api': 'WcMatch', 'pattern': fp, 'exclude': ep, 'flags': wfl}, rs, rb), None)
            # WcMatch: a root of one type with a file or folder-exclude pattern of the other type raises TypeError rather than returning an
            # answer (added after D37: the TypeError of the first comparison was swallowed by the walk's error handling, so
            # WcMatch(b'.', '*.txt').match() was [] and an exclude pattern of the other type excluded nothing)
            for rt, fp, ep in [(os.fsencode(tmp), '*.txt', None), (tmp, b'*.txt', None), (os.fsencode(tmp), b'*.txt', 'a'), (tmp, '*.txt', b'a'),
                               (os.fsencode(tmp), '', None), (tmp, b'', None), (os.fsencode(tmp), None, 'a'), (tmp, None, b'a'),
                               (os.fsencode(tmp), '*.txt|*.py', b'a'), (tmp, b'*', '.h')]:
                for wfl in (WM.RECURSIVE, WM.RECURSIVE | WM.HIDDEN, WM.RECURSIVE | WM.FILEPATHNAME | WM.DIRPATHNAME, 0):
                    sr.evaluations += 1
                    try:
                        out = WM.WcMatch(rt, fp, ep, wfl).match()
                        ck.report(Failing(f'WcMatch: a {type(rt).__name__} root with file pattern {fp!r} / exclude pattern {ep!r} returned an answer',
                                          {'api': 'WcMatch', 'root_type': type(rt).__name__, 'pattern': repr(fp), 'exclude': repr(ep), 'flags': wfl},
                                          'TypeError', repr(out)[:200]), None)
                    except TypeError:
                        pass
            # REALPATH: name/pattern of one type with a root of the other type raises TypeError for EVERY root value, the empty
            # string included (added after seeded change C18e: `root_dir or '.'` replaced an empty root of the wrong type)
            old_cwd = os.getcwd()
            os.chdir(tmp)
            try:
                for root in ('', '.', tmp, 'a'):
                    for flip in (False, True):
                        nm, pt, rt = ('x.txt', '*.txt', os.fsencode(root)) if not flip else (b'x.txt', b'*.txt', root)
                        calls = [('globmatch', lambda: G.globmatch(nm, pt, flags=G.REALPATH, root_dir=rt)),
                                 ('globfilter', lambda: G.globfilter([nm], pt, flags=G.REALPATH, root_dir=rt)),
                                 ('compile.match', lambda: G.compile(pt, flags=G.REALPATH).match(nm, root_dir=rt)),
                                 ('compile.filter', lambda: G.compile(pt, flags=G.REALPATH).filter([nm], root_dir=rt))]
                        for api, call in calls:
                            sr.evaluations += 1
                            try:
                                out = call()
                                ck.report(Failing(f'{api}: {type(nm).__name__} name and pattern with a {type(rt).__name__} root_dir {rt!r} '
                                                  'returned an answer', {'api': api, 'name': repr(nm), 'pattern': repr(pt), 'root_dir': repr(rt)},
                                                  'TypeError', repr(out)), None)
                            except TypeError:
                                pass
                    # same-type empty root = current directory
                    sr.evaluations += 1
                    if bool(G.globmatch('x.txt', '*.txt', flags=G.REALPATH, root_dir='')) != bool(G.globmatch(b'x.txt', b'*.txt', flags=G.REALPATH, root_dir=b'')):
                        ck.report(Failing('empty root_dir: str and bytes answers differ', {'api': 'globmatch', 'root_dir': "''"}, True, False), None)
            finally:
                os.chdir(old_cwd)
            # non-ASCII bytes in file names and in every pattern position: glob(bytes) = the tree paths accepted by globmatch(bytes)
            # (per-byte, Latin-1 code units; added after seeded change C18f: the last segment was re-encoded with os.fsencode)
            btmp = os.fsencode(tempfile.mkdtemp(prefix='c18b-', dir='/tmp'))
            try:
                os.makedirs(os.path.join(btmp, b'd\xe9', b's\xe8'))
                os.makedirs(os.path.join(btmp, b'plain'))
                for f in (b'caf\xe9.txt', b'caf\xc3\xa9.txt', b'cafe.txt', b'd\xe9/\xe8', b'd\xe9/\xc3\xa8', b'd\xe9/s\xe8/\xff', b'plain/\xe9', b'plain/e', b'\xea'):
                    open(os.path.join(btmp, f), 'w').close()
                universe = []
                for dp, dn, fn in os.walk(btmp):
                    for x in dn + fn:
                        universe.append(os.path.relpath(os.path.join(dp, x), btmp))
                bpats = [b'caf\xe9*', b'*\xe9*', b'[\xe8-\xea]', b'd\xe9/*', b'd\xe9/[\xe8]', b'caf?.txt', b'caf??.txt', b'**/\xe8', b'**/[\xe0-\xff]',
                         b'*/\xe9', b'*/?', b'*/??', b'd\xe9/s\xe8/\xff', b'd?/s?/?', b'caf\xe9.txt', b'**/*\xa9*', b'*[!a-z].txt', b'**/[[:alpha:]]',
                         b'**/[![:ascii:]]', b'@(caf\xe9|cafe).txt', b'*/@(\xe9|e)', b'{caf\xe9,cafe}.txt']
                rawp = [br'caf\xe9.*', br'\351a', br'**/\xe8', br'*/\351', br'[\xe8-\xea]']
                for p, extra in [(p, 0) for p in bpats] + [(p, G.RAWCHARS) for p in rawp]:
                    fl = G.GLOBSTAR | G.EXTGLOB | G.BRACE | extra
                    sr.evaluations += 1
                    got = sorted(G.glob(p, flags=fl, root_dir=btmp))
                    want = sorted(x for x in universe if G.globmatch(x, p, flags=fl))
                    if got != want:
                        ck.report(Failing('glob(bytes pattern with non-ASCII bytes) differs from the tree paths globmatch accepts',
                                          {'api': 'glob', 'pattern': repr(p), 'flags': fl, 'tree': [repr(x) for x in universe]},
                                          [repr(x) for x in want], [repr(x) for x in got]), None)
                    if list(G.iglob(p, flags=fl, root_dir=btmp)) != G.glob(p, flags=fl, root_dir=btmp):
                        ck.report(Failing('iglob differs from glob on a bytes tree', {'api': 'iglob', 'pattern': repr(p), 'flags': fl}, None, None), None)
            finally:
                shutil.rmtree(btmp, ignore_errors=True)
        finally:
            shutil.rmtree(tmp, ignore_errors=True)
        sr.note = ('translate/compile/match/filter/escape on p and encode(p) for fnmatch and glob; mixed types raise TypeError (also a '
                   'root_dir of the other type under REALPATH, empty root included); glob on a tree with non-ASCII byte names; '
                   'bytes 0x80-0xff vs Latin-1 chars against bracket/POSIX forms; glob and WcMatch on str vs bytes roots (same order), the bytes glob '
                   'through root_dir / dir_fd / cwd; WcMatch with root and patterns of different types raises TypeError')
    ck.search('bytes-vs-str-api', s_search)
    if drv:
        drv.close()
    return ck.finish()


def replay(path: str) -> int:
    import json
    print(json.dumps(json.load(open(path)).get('failing', [])[:5], indent=1))
    return 0

"""C16 — pathlib methods are faithful views of wcmatch.glob.

Proof part : Properties/C16.lean — `_translate_flags` as a total function of (flag word, class,
             host) for ALL flag words (closed form, when it raises, which bits survive); the flag
             words Path.glob / rglob / globmatch / full_match / match hand on; the methods as views
             of the given iglob / globmatch; `ValueError` for absolute patterns tied to the parser
             model (exactly when the pattern starts with '/'); the seen-set theorems behind "never
             twice unless NOUNIQUE"; source-text pins of every mirrored method.
Tie (K8)   : `_translate_flags` on flag words (all classes, host presented as posix and as nt), the
             call every method makes into wcmatch.glob (recorded by a proxy), `_pathlib_norm` and
             `_format_path` on candidate streams — Lean model through wcdriver vs the real code.
Search     : on generated REAL trees × every entry as path object × relative and absolute patterns ×
             random subsets of the property's flags: Path.glob vs glob.glob(root_dir=…) joined (lists,
             first-occurrence de-duplication by path object unless NOUNIQUE), rglob vs the same
             pattern with an explicit leading recursive segment, globmatch/full_match/match of
             Path / PurePosixPath / PureWindowsPath vs glob.globmatch on the path's string,
             `q.match(p, REALPATH)` vs membership in `Path('.').rglob(p)`, ValueError cases.
"""
from __future__ import annotations
import itertools
import json
import os
import shutil
import tempfile
import warnings

import common
import k8_pathlib as K
from framework import Check, Failing

warnings.simplefilter('ignore')

TARGETS = ['WcModel.Properties.C16', 'WcModel.Properties.C16walk']

SITE = {
    'KF-D6': 'wcmatch/_wcparse.py:1645-1662',
    'KF-D7': 'wcmatch/_wcmatch.py:93-112,165-169',
    'KF-D8': 'wcmatch/_wcparse.py:1363',
    'KF-NOTDIR': 'wcmatch/pathlib.py:210',
    'KF-PLNORM': 'wcmatch/glob.py:457,467,801-805',
    'KF-DOTSEG': 'wcmatch/pathlib.py:216',
    'KF-RGLOBSTAR': 'wcmatch/glob.py:370-380',
    'KF-NEWLINE': 'wcmatch/_wcparse.py:210-212, 222-223',
    'KF-PARTPREFIX': 'wcmatch/_wcparse.py:1645-1662',
    'KF-G6': 'wcmatch/glob.py:289-291',
    'KF-D16': 'wcmatch/glob.py:458,468',
    'KF-D14': 'wcmatch/glob.py:601',
    'KF-G3': 'wcmatch/_wcmatch.py:106-107',
    'KF-G8': 'wcmatch/_wcmatch.py:95-130',
}


# repaired defects whose old witnesses are still replayed (a reproduction is an unattributed violation)
FIXED = {'KF-D14', 'KF-D16', 'KF-PLNORM', 'KF-G6', 'KF-D7', 'KF-G3', 'KF-RGLOBSTAR'}


def _crosses_link(root: str, q: str) -> bool:
    comps = q.split('/')
    return any(os.path.islink(os.path.join(root, *comps[:j])) and os.path.isdir(os.path.join(root, *comps[:j])) for j in range(1, len(comps)))


def _hist(sr, k: str) -> None:
    sr.histogram[k] = sr.histogram.get(k, 0) + 1


# ----------------------------------------------------------------------------- one tree

def _run_tree(ck: Check, sr_k8, sr, drv, G, P, W, R, root: str, n_pat: int, exotic: bool, full: bool) -> None:
    tree = K.describe(root)
    ents = K.entries(root)
    cwd0 = os.getcwd()
    os.chdir(root)
    try:
        for _ in range(n_pat):
            pats, exclude = K.gen_pattern(R, ents, root)
            fl = K.gen_flags(R, P)
            _glob_cases(ck, sr_k8, sr, drv, G, P, W, R, root, tree, ents, pats, fl, exclude, full)
            _match_cases(ck, sr_k8, sr, drv, G, P, W, R, root, tree, ents, pats, fl, exclude, full)
            if isinstance(pats, str) and exclude is None:
                _match_vs_rglob(ck, sr, G, P, W, root, tree, ents, pats, fl)
            if R.random() < 0.25:
                _neg_match_vs_rglob(ck, sr, G, P, R, root, tree, ents)
    finally:
        os.chdir(cwd0)


# -------------------------------------------------------------- Path.glob / Path.rglob

def _neg_match_vs_rglob(ck, sr, G, P, R, root, tree, ents) -> None:
    """match ⇔ rglob for lists with an INLINE exclusion (`[p, '!x']`, NEGATE) and for exclude=, globstar-free inclusions (none of the
    recorded globstar findings applies), on every entry also through symlinked directories (added after seeded change C16f: the
    exclusions of match() were symlink-checked, those of rglob were not)"""
    names = sorted({e.split('/')[-1] for e in ents if e})
    if not names:
        return
    links = [e for e in ents if e and os.path.islink(os.path.join(root, e)) and os.path.isdir(os.path.join(root, e))]
    pos = R.choice(['*/*', '*', '*/*/*', '?*', '*/?*'] + ([G.escape(R.choice(links)) + '/*'] if links else []))
    nm = R.choice(names)
    ex = R.choice([G.escape(nm), G.escape(nm[:1]) + '*', '*' + G.escape(nm[-1:]), '*/' + G.escape(nm), '**/' + G.escape(nm)])
    fl = R.choice([0, P.EXTGLOB, P.GLOBSTAR, P.GLOBSTAR | P.EXTGLOB, P.DOTGLOB])
    cands = ents[1:] + K.entries_through_links(root, ents)
    for how in ('inline', 'exclude='):
        if how == 'inline':
            args, kw, f2 = [pos, '!' + ex], {}, fl | P.NEGATE
        else:
            args, kw, f2 = pos, {'exclude': ex}, fl
        rg = K.outcome(lambda: list(P.Path('.').rglob(args, flags=f2, **kw)))
        if rg[0] != 'ok':
            continue
        for q in cands:
            if '\n' in q or any(c in ('.', '..') for c in q.split('/')):
                continue
            m = K.outcome(lambda: P.Path(q).match(args, flags=f2 | P.REALPATH, **kw))
            if m[0] != 'ok':
                continue
            sr.evaluations += 1
            member = P.Path(q) in rg[1]
            _hist(sr, f'neg-match-vs-rglob:{"both" if m[1] and member else "neither" if not m[1] and not member else "DIFFER"}')
            if bool(m[1]) != member:
                # the same question through the public glob API decides which side is wrong — both are reported
                ck.report(Failing(f'Path({q!r}).match({args!r}, {how}, REALPATH) is {m[1]} but Path(".").rglob yields it: {member}',
                                  {'api': 'match-vs-rglob', 'path': q, 'pattern': args, 'exclude': kw.get('exclude'), 'flags': f2,
                                   'flag_names': K.flag_names(P, f2), 'tree': tree}, {'match': member}, {'match': m[1], 'rglob_yields': member},
                                  'wcmatch/_wcmatch.py:_match_real (exclusions); wcmatch/glob.py:_match_excluded'), None)


def _glob_cases(ck, sr_k8, sr, drv, G, P, W, R, root, tree, ents, pats, fl, exclude, full) -> None:
    # every path object naming an entry of the tree or its root (quick tier: the root + 5 sampled entries)
    chosen = ents if full or len(ents) <= 6 else [''] + R.sample(ents[1:], 5)
    for rel in chosen:
        relative_obj = R.random() < 0.3
        obj = P.Path(rel or '.') if relative_obj else P.Path(os.path.join(root, rel) if rel else root)
        is_dir = os.path.isdir(str(obj))
        for method in ('glob', 'rglob'):
            case = K.GlobCase(root, rel, method, pats, fl, exclude, relative_obj)
            # ---- real call, with the K8 tie on the call it makes
            res, calls = K.k8_call(sr_k8, drv, G, P, obj, 'PosixPath', method, pats, fl, exclude, is_dir)
            absolute = K.is_absolute_spec(W, pats, exclude, fl)
            if res[0] == 'timeout' or (res[0] == 'scan-budget' and not absolute):
                _hist(sr, f'{res[0]} (not a verdict)')
                continue
            sr.evaluations += 1
            # ---- specification through the public API (a refused absolute pattern never scans: a call that
            #      ran into the scan budget on an absolute pattern was not refused, and is reported below)
            spec_fl, spec_pats = fl, pats
            if method == 'rglob':
                eq = K.rglob_public_equivalent(P, pats, fl) if exclude is None else None
                if eq is None:
                    spec_pats = None
                else:
                    spec_pats, spec_fl = eq
            if absolute:
                exp = ('err', 'ValueError')
            elif spec_pats is None:
                exp = None                      # rglob not expressible through the public API: K8 only
            else:
                names = K.outcome(lambda: G.glob(spec_pats, flags=spec_fl, root_dir=str(obj), exclude=exclude))
                if names[0] == 'ok':
                    lst = [obj.joinpath(x) for x in names[1]]
                    exp = ('ok', lst if fl & P.NOUNIQUE else K.dedup_paths(lst))
                else:
                    exp = names
            # ---- K8: the Lean seen-set model over the real NOUNIQUE stream predicts the list
            if res[0] == 'ok' and calls and not absolute:
                w = calls[0][1] | G.NOUNIQUE
                stream = K.outcome(lambda: list(G.iglob(pats, flags=w, root_dir=str(obj), exclude=exclude)))
                if stream[0] == 'ok':
                    pred = K.model_format(drv, stream[1], bool(fl & P.NOUNIQUE))
                    got = list(res[1])
                    want = [obj.joinpath(x) for x in pred]
                    sr_k8.evaluations += 1
                    if want != got:
                        sr_k8.disagree({'stream': 'K8-seen-set', 'input': case.inp(P, tree),
                                        'code': [str(x) for x in got][:8], 'model': [str(x) for x in want][:8]})
                    # the stated assumption of C16_no_duplicates, on this sample: equal path objects
                    # ⇒ equal key
                    for a, b in itertools.combinations(sorted(set(stream[1]))[:8], 2):
                        if obj.joinpath(a) == obj.joinpath(b):
                            ka = K.model_format(drv, [a, b], False)
                            _hist(sr_k8, 'assumption hN exercised (equal path objects)')
                            if len(ka) != 1:
                                sr_k8.disagree({'stream': 'K8-assumption-hN', 'a': a, 'b': b,
                                                'why': 'equal path objects but different _pathlib_norm keys'})
            if exp is None:
                _hist(sr, f'{method}:k8-only(list layer / no public equivalent)')
                continue
            got = res if res[0] != 'ok' else ('ok', res[1])
            ok = (got == exp) and (res[0] != 'ok' or all(isinstance(x, P.Path) for x in res[1]))
            # uniqueness clause on its own: no path object twice unless NOUNIQUE
            if res[0] == 'ok' and not fl & P.NOUNIQUE and len(K.dedup_paths(res[1])) != len(res[1]):
                ok = False
            kind = 'ValueError' if exp[0] == 'err' else ('empty' if not exp[1] else 'nonempty')
            _hist(sr, f'{method}:{kind}:{"dir" if is_dir else "notdir"}')
            if ok:
                if len(sr.samples) < 4 and exp[0] == 'ok' and len(exp[1]) > 1:
                    sr.samples.append({'input': case.inp(P, None), 'result': [str(x) for x in exp[1]][:6]})
                continue
            # ---- a failing input: attribute or report
            kid = None
            if not is_dir:
                kid = 'KF-NOTDIR'
            # (rglob(p) for a p that already starts with a globstar segment used to be short of glob(p): KF-RGLOBSTAR,
            #  repaired — the implicit globstar part is no longer put in front of a pattern-initial globstar.  The walker halves
            #  of KF-PARTPREFIX / KF-NEWLINE — per-part regexes compiled with `_EXTMATCHBASE` still set: rglob('*(a|b)') yielded every
            #  name, rglob('?') the directory 'c\n' — are repaired too (G6): a list that differs from glob('**/' + p) is
            #  unattributed, whatever the pattern and the names)
            f = Failing(f'Path.{method} differs from glob.glob(root_dir=path) joined onto the path',
                        case.inp(P, tree), _show(exp), _show(got), SITE.get(kid, 'wcmatch/pathlib.py:195-236'))
            _hist(sr, f'failing:{kid or "unattributed"}')
            ck.report(f, kid)


def _show(o):
    if o is None:
        return None
    if o[0] == 'ok' and isinstance(o[1], list):
        return ['ok', [str(x) for x in o[1]]]
    return [o[0], o[1] if not isinstance(o[1], list) else [str(x) for x in o[1]]]


# ---------------------------------------------------- globmatch / full_match / match

def _match_cases(ck, sr_k8, sr, drv, G, P, W, R, root, tree, ents, pats, fl, exclude, full) -> None:
    noise = R.choice([0, 0, P._FORCEWIN, P._FORCEUNIX, P._FORCEWIN | P._FORCEUNIX])
    chosen = ents if full or len(ents) <= 5 else R.sample(ents, 5)
    for rel in chosen:
        absobj = R.random() < 0.3
        s = (os.path.join(root, rel) if rel else root) if absobj else (rel or '.')
        objs = [('PosixPath', P.Path(s)), ('PurePosixPath', P.PurePosixPath(s)),
                ('PureWindowsPath', P.PureWindowsPath(s.replace('/', '\\') if R.random() < 0.5 else s))]
        for cls, obj in objs:
            concrete = cls == 'PosixPath'
            is_dir = concrete and os.path.isdir(str(obj))
            for method in ('globmatch', 'full_match', 'match'):
                res, calls = K.k8_call(sr_k8, drv, G, P, obj, cls, method, pats, fl | noise, exclude, is_dir)
                if res[0] in ('timeout', 'scan-budget'):
                    continue
                sr.evaluations += 1
                # specification: glob.globmatch on the path's string (+ separator for a concrete
                # directory), platform fixed by the class, user FORCE* ignored
                win = cls == 'PureWindowsPath'
                if win and fl & P.REALPATH:
                    exp = ('err', 'ValueError')       # foreign platform + REALPATH (this host is POSIX)
                else:
                    name = str(obj) + (('\\' if win else '/') if is_dir and str(obj) else '')
                    sfl = (fl & ~(P._FORCEWIN | P._FORCEUNIX)) | (P._FORCEWIN if win else P._FORCEUNIX)
                    if method == 'match':
                        sfl |= G._EXTMATCHBASE
                    exp = K.outcome(lambda: G.globmatch(name, pats, flags=sfl, exclude=exclude))
                if exp[0] in ('timeout', 'scan-budget'):
                    # a reference call cut off by its time limit (nested quantifiers: exponential backtracking in `re`) is not a verdict
                    # (thorough tier, unchanged tree: `*/[!a]+([a-][A-Z]|*+()|)/*(?()*)[^[:digit:]]-/***` — the method finished, the reference did not)
                    _hist(sr, 'reference cut off (not a verdict)')
                    continue
                _hist(sr, f'{method}:{cls}:{exp[1] if exp[0] == "ok" else exp[1]}')
                if res != exp:
                    f = Failing(f'{cls}.{method} differs from glob.globmatch on the path string',
                                {'api': f'{cls}.{method}', 'tree': tree, 'path': str(obj), 'patterns': pats,
                                 'exclude': exclude, 'flags': fl | noise, 'flag_names': K.flag_names(P, fl | noise)},
                                list(exp), list(res), 'wcmatch/pathlib.py:89-166')
                    _hist(sr, 'failing:unattributed')
                    ck.report(f, None)


# ------------------------------------------------- match(REALPATH) ⇔ member of rglob

def _match_vs_rglob(ck, sr, G, P, W, root, tree, ents, pat, fl) -> None:
    """cwd is the tree root.  For every entry q (a relative path below cwd):
       q.match(p, flags|REALPATH)  ⇔  q ∈ Path('.').rglob(p, flags)."""
    with K.recording(G, P) as px:
        rg = K.outcome(lambda: list(P.Path('.').rglob(pat, flags=fl)))
        word = px.calls[0][1] if px.calls else None
    if rg[0] not in ('ok', 'err'):
        return
    raw = None
    fixed = None
    for q in ents[1:] + K.entries_through_links(root, ents):
        for cls in (P.Path, P.PurePosixPath):
            m = K.outcome(lambda: cls(q).match(pat, flags=fl | P.REALPATH))
            if m[0] not in ('ok', 'err'):
                continue
            sr.evaluations += 1
            if rg[0] == 'err' or m[0] == 'err':
                # absolute patterns: rglob raises ValueError, match has no such rule; outside the clause
                _hist(sr, f'match-vs-rglob:error({rg[1] if rg[0] == "err" else m[1]})')
                continue
            member = P.Path(q) in rg[1]
            _hist(sr, f'match-vs-rglob:{"both" if m[1] and member else "neither" if not m[1] and not member else "DIFFER"}')
            if bool(m[1]) == member:
                continue
            kid = None
            # what rglob must yield, through the public API (explicit leading recursive segment)
            if fixed is None:
                eq = K.rglob_public_equivalent(P, pat, fl)
                fixed = ('none',) if eq is None else K.outcome(lambda: [P.Path(x) for x in G.glob(eq[0], flags=eq[1], root_dir='.')])
            truth = (P.Path(q) in fixed[1]) if fixed[0] == 'ok' else None
            # (repaired, no longer attributed: KF-RGLOBSTAR — rglob of a pattern starting with a globstar lost / added results;
            #  KF-G3 — second `**` group of match() lstat-ed under the wrong base; KF-D7 — a link to a file as last piece of `**`)
            if any(comp.endswith('\n') for comp in q.split('/')) and \
                    ((m[1] and not member) or (fl & P.EXTGLOB and '!(' in pat)):
                # a name ENDING in a newline: match() accepts it through the '$' of its prefix divider `(?:^|$|/)+`
                # (the walker's per-part regexes have no prefix since the G6 repair: rglob does not yield it), or
                # the '$' in the look-ahead of a `!(…)` decides differently on `name` (walker) and `name/` (match)
                kid = 'KF-NEWLINE'
            elif m[1] and not member and truth is not True and K.sig_empty_part(G, W, P, pat, fl):
                # a segment that can match '' : the right-anchored regex of match() accepts any name (rglob, whose
                # per-part regexes have no prefix since the G6 repair, does not yield it, nor does glob('**/' + p))
                kid = 'KF-PARTPREFIX'
            elif not m[1] and member and truth is True and _crosses_link(root, q) and K.sig_has_gstar_segment(W, P, pat, fl) and \
                    K.outcome(lambda: cls(q).match(pat, flags=fl & ~P.REALPATH))[1] is True:
                # the regex accepts q and the walker (also through the public `**/p`) yields it, but the decomposition the regex engine
                # found first puts the symlinked directory inside a captured `**`: _fs_match looks at no other reading (G8)
                kid = 'KF-G8'
            elif m[1] and not member and K.sig_D6(W, P, pat, fl, q):
                kid = 'KF-D6'
            elif m[1] and not member and K.sig_D8(W, P, pat, fl, q):
                kid = 'KF-D8'
            elif not m[1] and member and word is not None:
                # the strings glob yielded (before pathlib normalised them) do not contain q, but
                # contain a string with a '.' component that joinpath normalises to q
                if raw is None:
                    raw = K.outcome(lambda: [x for x in G.iglob(pat, flags=word, root_dir='.')])
                if raw[0] == 'ok' and not any(x.rstrip('/') == q for x in raw[1]) and \
                        any('.' in x.split('/') and P.Path(x) == P.Path(q) for x in raw[1]):
                    kid = 'KF-DOTSEG'
            f = Failing(f'{cls.__name__}({q!r}).match({pat!r}, REALPATH) is {m[1]} but Path(".").rglob yields it: {member}',
                        {'api': 'match-vs-rglob', 'tree': tree, 'cwd': 'tree root', 'path': q, 'class': cls.__name__,
                         'pattern': pat, 'flags': fl, 'flag_names': K.flag_names(P, fl)},
                        {'match': member}, {'match': m[1], 'rglob_yields': member}, SITE.get(kid, 'wcmatch/pathlib.py:115-130'))
            _hist(sr, f'failing:{kid or "unattributed"}')
            ck.report(f, kid)


# ------------------------------------------------------------------------------- run

def _flag_words(ck: Check, P, R) -> list[int]:
    """flag words for `_translate_flags`: every subset of the property's flags (quick) / of all public
    pathlib flags (thorough), plus words with user FORCE*, internal and junk bits"""
    names = K.ALL_PUBLIC if ck.tier == 'thorough' else K.PUBLIC
    vals = [getattr(P, n) for n in names]
    words = []
    for k in range(1 << len(vals)):
        w = 0
        for i, v in enumerate(vals):
            if k >> i & 1:
                w |= v
        words.append(w)
    noise = [P._FORCEWIN, P._FORCEUNIX, P._EXTMATCHBASE, P._NOABSOLUTE, P._PATHLIB, 1 << 18, 1 << 24, 1 << 32, 1 << 33,
             1 << 36, 1 << 40, 1 << 70]
    allv = [getattr(P, n) for n in K.ALL_PUBLIC] + noise
    for _ in range(20000 if ck.tier == 'quick' else 200000):
        w = 0
        for v in allv:
            if R.random() < 0.3:
                w |= v
        words.append(w)
    return words


def run(ck: Check) -> int:
    G, P, W = K.mods()
    ck.build()
    ck.audit()
    R = common.rng('C16')
    drv = common.Driver() if ck.driver_ok else None
    quick = ck.tier == 'quick' and not ck.deep()
    tmp = tempfile.mkdtemp(prefix='c16-k8-', dir='/tmp')
    try:
        if drv:
            def s_tf(sr):
                K.k8_translate_flags(sr, drv, P, _flag_words(ck, P, R))
                sr.note = ('K8: real PurePosixPath/PureWindowsPath/PosixPath._translate_flags (os.name as it is and '
                           'presented as "nt") vs Lean translateFlags; every subset of the '
                           + ('19 public pathlib flags' if ck.tier == 'thorough' else "13 flags of the property's quantifier")
                           + ' plus random words with user FORCEWIN/FORCEUNIX, internal and unknown bits')
            ck.stream('K8-translate-flags', s_tf)

            def s_norm(sr):
                import gen
                strings = list(gen.exhaustive('a./\\\n', 5 if quick else 7))
                K.k8_norm(sr, drv, G, strings)
                K.k8_format(sr, drv, G, R, 3000 if quick else 40000, tmp)
                sr.note = ('K8: Glob._pathlib_norm (and the POSIX regex with the same tail rule) on every string over '
                           '{a . / \\ \\n} up to length ' + ('5' if quick else '7') + ' vs Lean pathlibNorm; '
                           'Glob._format_path driven with random candidate streams vs Lean formatPaths')
            ck.stream('K8-norm-format', s_norm)

        # ---- generated trees: K8 on the calls + the search
        k8 = framework_stream('K8-calls-and-seen-set')
        k8.note = ('K8: for every method call of the search below, the call recorded inside wcmatch.pathlib '
                   '(flag word, root_dir / filename, arguments passed through) vs the Lean method model; the list '
                   'Path.glob/rglob returns vs Lean formatPaths over the real NOUNIQUE stream; assumption hN sampled')

        def s_trees(sr):
            n_trees = 60 if quick else 300
            n_pat = 16 if quick else 24
            for t in range(n_trees):
                exotic = t % 5 == 4
                root = K.build_tree(R, exotic)
                try:
                    _run_tree(ck, k8, sr, drv, G, P, W, R, root, n_pat, exotic, not quick)
                    sr.distinct += 1
                finally:
                    K.remove_tree(root)
            sr.note = (f'{n_trees} generated real trees (every 5th with backslash/newline names) × {n_pat} pattern '
                       'requests (fixed relative/absolute shapes, grammar-generated, entries and their suffixes, '
                       'pattern lists, exclude=) × random subsets of {GLOBSTAR, DOTGLOB, EXTGLOB, FOLLOW, GLOBSTARLONG, '
                       'NODIR, NEGATE, SCANDOTDIR, NOUNIQUE, REALPATH, MATCHBASE, BRACE, SPLIT} × every entry as path '
                       'object (absolute and cwd-relative) × {Path, PurePosixPath, PureWindowsPath}; distinct = trees')
        if drv:
            ck.search('pathlib-vs-glob-on-trees', s_trees)
            ck.streams.append(k8)
            if k8.n_disagree:
                ck.broken_ties.append(f'correspondence stream {k8.name}: {k8.n_disagree} disagreement(s), first: '
                                      + json.dumps(k8.disagreements[0], default=str)[:700])

        # ---- the listed witnesses, replayed on the real code
        def s_wit(sr):
            _witnesses(ck, sr, G, P, W)
        ck.search('known-finding-witnesses', s_wit)
    finally:
        shutil.rmtree(tmp, ignore_errors=True)
        if drv:
            drv.close()
    return ck.finish(assumptions=[
        "pathlib's own normalisation (str(), joinpath, ==, is_dir) is taken as given; the uniqueness theorem assumes "
        "'equal path objects ⇒ equal _pathlib_norm key' (hN), sampled in K8",
        "glob.iglob / glob.globmatch are parameters of the Lean method model (the walker is modelled elsewhere); "
        "C16_match_rglob is stated, not proved, and compared on every entry of every generated tree",
        'host is POSIX: WindowsPath cannot be instantiated; Windows rules are reached through PureWindowsPath, and the '
        "'nt' branch of _translate_flags by presenting os.name='nt' to the method"])


def framework_stream(name: str):
    from framework import StreamResult
    return StreamResult(name)


def _witnesses(ck: Check, sr, G, P, W) -> None:
    """replay the witness of every listed C16 finding, of the repaired ones (`FIXED`: they must not
    reproduce) and the property's own example on the real code"""
    top = tempfile.mkdtemp(prefix='c16-w-', dir='/tmp')
    root = os.path.join(top, 'w', 'r')
    cwd0 = os.getcwd()
    try:
        os.makedirs(os.path.join(root, 'd', 'ab'))
        os.makedirs(os.path.join(root, 'c\n'))
        for f in ('d/.hid', 'd/x', 'f.txt', 'xyz', 'b', 'a\\b', 'a\\.\\b', 'x\\', 'a\n'):
            open(os.path.join(root, f), 'w').close()
        os.symlink('f.txt', os.path.join(root, 'lf'))
        os.symlink('d', os.path.join(root, 'ld'))
        os.symlink('nowhere', os.path.join(root, 'dang'))
        os.makedirs(os.path.join(root, 'g3', 'dd'))
        os.symlink('../../d', os.path.join(root, 'g3', 'dd', 'l'))
        os.chdir(root)
        tree = K.describe(root)

        def seen(kid: str, ok: bool, what: str, inp: dict, exp, obs) -> None:
            sr.evaluations += 1
            if kid in FIXED:
                # a repaired defect: its old witness must NOT reproduce; if it does, that is a violation
                if ok:
                    _hist(sr, f'{kid} (fixed) witness REPRODUCED: the defect is back')
                    ck.report(Failing('repaired defect is back: ' + what, {**inp, 'tree': tree}, exp, obs, SITE[kid]), None)
                else:
                    _hist(sr, f'{kid} fixed witness holds')
                return
            if ok:
                _hist(sr, f'{kid} witness reproduced')
                ck.report(Failing(what, {**inp, 'tree': tree}, exp, obs, SITE[kid]), kid)
            else:
                _hist(sr, f'{kid} witness NOT reproduced (repaired?)')

        def mvr(kid: str, pat: str, fl: int, q: str) -> None:
            rg = [str(x) for x in P.Path('.').rglob(pat, flags=fl)]
            m = P.Path(q).match(pat, flags=fl | P.REALPATH)
            seen(kid, m != (q in rg), f'Path({q!r}).match({pat!r}, REALPATH) = {m}, rglob yields it: {q in rg}',
                 {'api': 'match-vs-rglob', 'path': q, 'pattern': pat, 'flags': fl, 'flag_names': K.flag_names(P, fl)},
                 {'match': q in rg}, {'match': m})

        # D6 — the property's own example: pure, no file system
        sr.evaluations += 1
        d6 = P.PurePath('d/.hid').match('**', flags=P.GLOBSTAR) and not P.PurePath('d/.hid').match('*', flags=P.GLOBSTAR)
        _hist(sr, 'D6 pure witness ' + ('reproduced' if d6 else 'NOT reproduced (repaired?)'))
        mvr('KF-D6', '**', P.GLOBSTAR, 'd/.hid')
        mvr('KF-D7', '**', P.GLOBSTAR, 'lf')
        mvr('KF-D7', '**', P.GLOBSTAR, 'dang')
        mvr('KF-G3', '**/dd/**', P.GLOBSTAR, 'g3/dd/l/x')
        mvr('KF-RGLOBSTAR', '**/x', P.GLOBSTAR, 'ld/x')
        mvr('KF-D8', '**/', P.GLOBSTAR, 'f.txt')
        mvr('KF-DOTSEG', '.', 0, 'd')
        mvr('KF-NEWLINE', '?', 0, 'a\n')
        mvr('KF-G6', '?', 0, 'c\n')
        mvr('KF-D14', '@(a|b)', P.EXTGLOB, 'a\n')
        mvr('KF-D16', '*', P.NODIR, 'x\\')
        mvr('KF-RGLOBSTAR', '**/*', P.GLOBSTAR, 'xyz')
        mvr('KF-G8', '*/**/x', P.GLOBSTAR, 'g3/dd/l/x')
        a = [str(x) for x in P.Path('.').rglob('**/*', flags=P.GLOBSTAR)]
        b = G.glob('**/*', flags=G.GLOBSTAR)
        seen('KF-RGLOBSTAR', sorted(a) != sorted(b), "Path('.').rglob('**/*') loses results glob('**/*') has",
             {'api': 'Path.rglob', 'pattern': '**/*', 'flags': P.GLOBSTAR}, b, a)
        a = sorted(str(x) for x in P.Path('.').rglob('*(a|b)', flags=P.EXTGLOB))
        b = sorted(G.glob('**/*(a|b)', flags=G.EXTGLOB | G.GLOBSTAR))
        seen('KF-G6', a != b, "rglob('*(a|b)') yields names the pattern does not denote (it must be glob('**/*(a|b)'))",
             {'api': 'Path.rglob', 'pattern': '*(a|b)', 'flags': P.EXTGLOB}, b, a)
        mvr('KF-PARTPREFIX', '*(a|b)', P.EXTGLOB, 'xyz')
        seen('KF-PARTPREFIX', P.PurePath('xyz').match('*(a|b)', flags=P.EXTGLOB),
             "match('*(a|b)') accepts a name the pattern does not denote",
             {'api': 'PurePath.match', 'path': 'xyz', 'pattern': '*(a|b)', 'flags': P.EXTGLOB}, False,
             {"PurePath('xyz').match": P.PurePath('xyz').match('*(a|b)', flags=P.EXTGLOB)})
        a = sorted(x.name for x in P.Path(root).glob('*'))
        b = sorted(G.glob('*', root_dir=root))
        seen('KF-PLNORM', a != b, "Path.glob('*') drops a file whose name differs from another only by '\\.\\'",
             {'api': 'Path.glob', 'pattern': '*', 'flags': 0}, b, a)
        a = [str(x) for x in P.Path(os.path.join(root, 'f.txt')).glob('./')]
        b = G.glob('./', root_dir=os.path.join(root, 'f.txt'))
        c = K.outcome(lambda: list(P.Path(os.path.join(root, 'f.txt')).glob('/a')))
        seen('KF-NOTDIR', (not a and bool(b)) or c[0] == 'ok', 'Path.glob on a non-directory path short-circuits',
             {'api': 'Path.glob', 'path': 'f.txt', 'patterns': ['./', '/a']}, {'./': b, '/a': 'ValueError'},
             {'./': a, '/a': list(c)})
        sr.note = 'the witnesses of the listed findings and of the repaired ones, replayed on the real code on an eighteen-entry tree'
        sr.distinct += 21
    finally:
        os.chdir(cwd0)
        shutil.rmtree(top, ignore_errors=True)


def replay(path: str) -> int:
    """re-run the failing inputs of a replay file: rebuild the recorded tree and repeat the calls"""
    G, P, W = K.mods()
    data = json.load(open(path))
    for f in data.get('failing', []):
        i = f['input']
        if not isinstance(i, dict):
            print('input was clipped when the replay file was written, cannot rebuild the tree:', str(i)[:300])
            continue
        root = tempfile.mkdtemp(prefix='c16-r-', dir='/tmp')
        cwd0 = os.getcwd()
        try:
            links = []
            for rel, kind in i.get('tree') or []:
                if not rel:
                    continue
                full = os.path.join(root, rel)
                if kind == 'dir':
                    os.makedirs(full, exist_ok=True)
                elif kind == 'file':
                    os.makedirs(os.path.dirname(full), exist_ok=True)
                    open(full, 'w').close()
                else:
                    links.append((full, kind[len('link->'):].rsplit(' (', 1)[0]))
            for full, tgt in links:
                os.makedirs(os.path.dirname(full), exist_ok=True)
                os.symlink(tgt, full)
            os.chdir(root)
            api = i.get('api', '')
            if api.startswith('Path.'):
                m = api.split('.')[1]
                rel = i['path'] if i['path'] != '.' else ''
                obj = P.Path(rel or '.') if i.get('path_object', '').startswith('relative') else P.Path(os.path.join(root, rel) if rel else root)
                got = K.outcome(lambda: [str(x) for x in getattr(obj, m)(i.get('patterns', i.get('pattern')), flags=i.get('flags', 0), exclude=i.get('exclude'))])
                rp, rf = i.get('patterns', i.get('pattern')), i.get('flags', 0)
                if m == 'rglob':
                    eq = K.rglob_public_equivalent(P, rp, rf)
                    rp, rf = eq if eq else (rp, rf)
                ref = K.outcome(lambda: G.glob(rp, flags=rf, root_dir=str(obj), exclude=i.get('exclude')))
                print('replayed', api, 'path', str(obj), '->', got, f'| glob.glob({rp!r}, flags={rf}, root_dir=path):', ref)
            elif api == 'match-vs-rglob':
                rg = K.outcome(lambda: [str(x) for x in P.Path('.').rglob(i['pattern'], flags=i['flags'])])
                m = K.outcome(lambda: P.Path(i['path']).match(i['pattern'], flags=i['flags'] | P.REALPATH))
                print('replayed match-vs-rglob', i['path'], i['pattern'], 'match:', m, 'rglob:', rg)
            else:
                cls, m = api.split('.')
                obj = getattr(P, cls)(i['path'])
                got = K.outcome(lambda: getattr(obj, m)(i['patterns'], flags=i['flags'], exclude=i.get('exclude')))
                print('replayed', api, i['path'], '->', got)
        finally:
            os.chdir(cwd0)
            shutil.rmtree(root, ignore_errors=True)
    return 0

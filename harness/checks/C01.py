"""C01 — file-name matching follows the documented wildcard language.

Proof  : Properties/C01.lean — `C01_partial`: for every pattern of the documented grammar (in
         the `!(…)` scope the property states), every non-empty name, both case modes, DOTMATCH
         on/off: FullMatch (wrap (comp g)) s ↔ Lang g s, minus D1 (repeated group at the start)
         and D3 (`$` in the look-ahead).  POSIX tables proved equal to the documented classes.
Tie    : K1  regex text  WcParse.parse  == render (faithful Lean port)
         K1' AST of the faithful port == tidy compiler `comp` the theorem is about (mod grouping)
         K2  re.fullmatch == Re.fullmatch on the model AST, per name
Search : executable specification `Pat.langB` (proved = `Pat.Lang`) vs fnmatch.fnmatch /
         filter / compile().match on grammar patterns x names.
"""
from __future__ import annotations
import warnings

import common
import gen
import streams
from framework import Check, Failing

warnings.simplefilter('ignore')
TARGETS = ['WcModel.Properties.C01']


def _flagsets(F):
    base = F.FORCEUNIX
    out = []
    for d in (0, F.DOTMATCH):
        for e in (0, F.EXTMATCH):
            for c in (0, F.IGNORECASE, F.CASE, F.IGNORECASE | F.CASE):
                out.append(base | d | e | c)
    return out


def run(ck: Check) -> int:
    common.import_wcmatch()
    from wcmatch import fnmatch as F
    ck.build()
    ck.audit()
    R = common.rng('C01')
    quick = ck.tier == 'quick'
    drv = common.Driver() if ck.driver_ok else None
    fsets = _flagsets(F)

    # ---------------- patterns
    n_gram = 4000 if quick else 60000
    gram = []
    for _ in range(n_gram):
        p = gen.gen_seq(R, 2, True, R.randint(1, 4))
        gram.append(p)
    # bracket expressions as token sequences: classes, literals, ranges, negation in every order (added after seeded change
    # C01d: a POSIX class earlier in the bracket made a LATER range hyphen literal — `[[:digit:]a-f]`)
    BT = ['a', 'f', '-', '0', '[:digit:]', '[:alpha:]', '[:punct:]', '!', 'Z', ']']
    import itertools as _it
    brk = ['[' + ''.join(t) + ']' for L in range(1, 5 if quick else 6) for t in _it.product(BT, repeat=L)]
    # escaped members / range end points inside a bracket (added after seeded change C01e: `[\\/]` emitted a nested set in
    # fnmatch mode only)
    BE = ['a', 'c', '-', '!', '/', '\\/', '\\]', '\\-', '\\a', '\\\\', '\\[', '+']
    brk += ['[' + ''.join(t) + ']' for L in range(1, 4 if quick else 5) for t in _it.product(BE, repeat=L)]
    alpha = 'ab.*?[]!()|' if quick else 'ab.*?[]!()|+@\\-'
    exh = list(gen.exhaustive(alpha, 3 if quick else 4))

    def s_k1(sr):
        cases = []
        for fl in (fsets if not quick else fsets[::3]):
            for p in exh:
                cases.append((p, fl, False))
        for p in gram:
            fl = R.choice(fsets)
            cases.append((p, fl, R.random() < 0.2 and all(ord(c) < 256 for c in p)))
        for k, p in enumerate(brk):
            cases.append((p, fsets[k % len(fsets)], False))
        streams.k1(sr, drv, cases)
        sr.note = ('K1 regex text, fnmatch-mode flag sets {DOTMATCH,EXTMATCH,IGNORECASE,CASE}+FORCEUNIX, '
                   f'exhaustive strings <= {3 if quick else 4} over {alpha!r} and {len(gram)} grammar patterns, str+bytes')
    ck.stream('K1-parse-text', s_k1)

    def s_tidy(sr):
        cases = [(p, R.choice(fsets) | F.EXTMATCH) for p in gram]
        outs = drv.ask_many([f'tidy {fl} {common.enc(p)}' for p, fl in cases])
        for (p, fl), o in zip(cases, outs):
            sr.evaluations += 1
            k = o.split(' ')[0] + (' ' + o.split(' ')[1] if o.startswith('ok') else '')
            sr.histogram[k] = sr.histogram.get(k, 0) + 1
            if o.startswith('ok same'):
                sr.distinct += 1
                if len(sr.samples) < 3:
                    sr.samples.append({'pattern': p, 'flags': hex(fl)})
            elif o.startswith('ok diff') or o.startswith('err') or o == 'bad-op':
                sr.disagree({'stream': "K1'", 'pattern': p, 'flags': fl, 'reply': o[:500]})
        sr.note = ("K1': canonical AST of the faithful port == canonical AST of the tidy compiler `comp` "
                   "(the object of C01_partial) on grammar patterns inside the stated scope; 'oos'/'none' = outside scope")
    ck.stream('K1prime-tidy', s_tidy)

    names = [n for n in gen.names_upto('ab.A-', 3) if n] + ['a.b', 'ab.a', 'a..b', 'abab', 'a\n', 'b-a.', 'a.txt', '\n',
                                                                 '0', '5', 'e', 'f', 'g', 'Z', '!', ']', '[', ',', 'xa', 'xe-', 'x-', 'x0',
                                                                 '/', 'c', '\\', '+', 'a/', '/]', '[/]', 'a]', 'x/', 'x\\', 'x+', 'x]', 'xc']

    def s_k2(sr):
        cases = [(p, R.choice(fsets) | F.EXTMATCH, False) for p in gram[: (1500 if quick else 20000)]]
        streams.k2(sr, drv, cases, names)
        sr.note = 'K2 re.fullmatch vs Re.fullmatch of the model AST on every name of the name set'
    ck.stream('K2-regex-semantics', s_k2)

    # ---------------- search: specification vs the real API
    def s_search(sr):
        deep = ck.deep()
        pats = gram if deep or not quick else gram[:3000]
        if deep and quick:
            pats = pats + [gen.gen_seq(R, 3, True, R.randint(1, 5)) for _ in range(20000)]
        cases = []
        for p in pats:
            fl = F.FORCEUNIX | F.EXTMATCH
            if R.random() < 0.5:
                fl |= F.DOTMATCH
            if R.random() < 0.25:
                fl |= F.IGNORECASE
            cases.append((p, fl))
        for k, p in enumerate(brk if (deep or not quick) else brk[::3]):
            cases.append((p, F.FORCEUNIX | F.EXTMATCH | F.DOTMATCH | (F.IGNORECASE if k % 5 == 0 else 0)))
            if k % 4 == 0:
                cases.append(('x' + p + '*', F.FORCEUNIX | F.EXTMATCH))
        encn = ' '.join(common.enc(n) for n in names)
        outs = drv.ask_many([f'spec {int(bool(fl & F.IGNORECASE))} 1 {int(bool(fl & F.DOTMATCH))} {common.enc(p)} {encn}' for p, fl in cases]) \
            if drv else []
        acc = rej = 0
        apis = ('fnmatch', 'filter', 'compile')
        for k, ((p, fl), o) in enumerate(zip(cases, outs)):
            f = o.split(' ')
            if f[0] != 'ok':
                sr.histogram[f[0]] = sr.histogram.get(f[0], 0) + 1
                continue
            bits, start_safe, neg_free = f[1], f[2] == '1', f[3] == '1'
            sr.distinct += 1
            api = apis[k % 3]
            try:
                with common.time_limit(5):
                    if api == 'fnmatch':
                        got = [F.fnmatch(n, p, flags=fl) for n in names]
                    elif api == 'filter':
                        # every kind of iterable the signature admits (added after seeded change C01f: a peek consumed the
                        # first name of a one-shot iterator)
                        src = (names, iter(names), (n for n in names), tuple(names), map(str, names))[(k // 3) % 5]
                        keep = set(F.filter(src, p, flags=fl))
                        got = [n in keep for n in names]
                    else:
                        m = F.compile(p, flags=fl)
                        got = [m.match(n) for n in names]
            except common.CallTimeout:
                sr.histogram['timeout'] = sr.histogram.get('timeout', 0) + 1
                continue
            for n, b, g in zip(names, bits, got):
                if not (fl & F.DOTMATCH) and n.startswith('.'):
                    continue            # leading dots: C03
                sr.evaluations += 1
                exp = b == '1'
                if exp:
                    acc += 1
                else:
                    rej += 1
                if bool(g) != exp:
                    kid = None
                    if n.endswith('\n') and not neg_free:
                        kid = 'KF-D3'
                    elif not start_safe:
                        kid = 'KF-D1'
                    ck.report(Failing(f'{api}: name {n!r} pattern {p!r}: code {bool(g)}, documented language {exp}',
                                      {'api': 'fnmatch.' + api, 'pattern': p, 'name': n, 'flags': fl},
                                      exp, bool(g)), kid)
                    key = kid or 'unattributed'
                    sr.histogram[key] = sr.histogram.get(key, 0) + 1
            if len(sr.samples) < 3 and '1' in bits:
                sr.samples.append({'pattern': p, 'flags': hex(fl), 'api': api,
                                   'accepted': [n for n, b in zip(names, bits) if b == '1'][:4]})
        sr.histogram['spec-accepts'] = acc
        sr.histogram['spec-rejects'] = rej
        sr.note = ('spec Pat.langB vs fnmatch.fnmatch / filter / compile().match on grammar patterns inside the '
                   'stated scope x all non-empty names <= 3 over "ab.A-" + extras (names with a leading dot only under '
                   'DOTMATCH); a disagreement is attributed to KF-D1 iff a repeated group whose body carries a start guard stands at the start of the '
                   'pattern (Pat.startSafe false), to KF-D3 iff the name ends in a newline and the pattern has !( ; anything else is a violation')
    ck.search('spec-vs-fnmatch', s_search)

    def s_unicode_case(sr):
        # Case-insensitive matching of letters outside ASCII (the Lean regex model folds ASCII only, so this clause is decided on the
        # real code by an independent statement of the documented language for LITERALS, `?`, and one-member / one-range brackets:
        # under IGNORECASE two cased letters match iff their simple case mappings agree; under CASE, or without IGNORECASE on this
        # host, iff they are equal).  Added after seeded change C01h (`re.ASCII` on the compiled regex: `fnmatch('é', 'É', I)` False).
        pairs = [('é', 'É'), ('ä', 'Ä'), ('ж', 'Ж'), ('ω', 'Ω'), ('ç', 'Ç'), ('ø', 'Ø'), ('я', 'Я'), ('ñ', 'Ñ')]
        sr.note = (f'{len(pairs)} cased letter pairs outside ASCII x literal / prefix+literal / `?` / bracket member / bracket range / negated bracket '
                   'x {IGNORECASE, CASE, IGNORECASE|CASE, none} x {DOTMATCH, EXTMATCH} x fnmatch / filter / compile().match, str only')

        def same(a, b, ci):
            return a == b or (ci and (a.lower() == b.lower() or a.upper() == b.upper()))
        for lo, up in pairs:
            for fl0, ci in ((F.IGNORECASE, True), (F.CASE, False), (F.IGNORECASE | F.CASE, False), (0, False)):
                for extra in (0, F.DOTMATCH, F.EXTMATCH):
                    fl = fl0 | extra | F.FORCEUNIX
                    for pc in (lo, up):
                        for nc in (lo, up):
                            eq = same(pc, nc, ci)
                            lo_r, up_r = chr(ord(lo) - 1), chr(ord(lo) + 1)
                            forms = [(pc, nc, eq), ('x' + pc + 'y', 'x' + nc + 'y', eq), ('?', nc, True), ('[' + pc + ']', nc, eq),
                                     ('[!' + pc + ']', nc, not eq), ('x[' + lo_r + '-' + up_r + ']', 'x' + nc, same(lo, nc, ci)),
                                     ('@(' + pc + '|q)', nc, eq) if extra == F.EXTMATCH else (pc + '*', nc + 'z', eq)]
                            for k, (pat, name, exp) in enumerate(forms):
                                sr.evaluations += 1
                                api = ('fnmatch', 'filter', 'compile')[(k + len(sr.samples)) % 3]
                                if api == 'fnmatch':
                                    got = F.fnmatch(name, pat, flags=fl)
                                elif api == 'filter':
                                    got = bool(F.filter([name], pat, flags=fl))
                                else:
                                    got = F.compile(pat, flags=fl).match(name)
                                if bool(got) != exp:
                                    ck.report(Failing(f'{api}: name {name!r} pattern {pat!r} (letters outside ASCII): code {bool(got)}, documented language {exp}',
                                                      {'api': 'fnmatch.' + api, 'pattern': pat, 'name': name, 'flags': fl}, exp, bool(got)), None)
                                    sr.histogram['FAIL'] = sr.histogram.get('FAIL', 0) + 1
                                else:
                                    sr.histogram['holds'] = sr.histogram.get('holds', 0) + 1
            if len(sr.samples) < 2:
                sr.samples.append({'pair': [lo, up]})
        sr.distinct = len(pairs)
    ck.search('non-ascii-case', s_unicode_case)

    def s_hist(sr):
        # the documented language, asked in a HISTORY: a pattern STRING and the LIST of its characters (or of its pieces) are different
        # questions, in either order and through every one-shot entry point (added after seeded change C01i: fnmatch() / filter() kept their
        # matchers in a cache keyed by tuple(patterns), and tuple('ab') == tuple(['a', 'b']))
        words = ['ab', '??', 'x*', 'a?', '*b', 'ba', '[ab]', 'a*b']
        names = ['a', 'b', 'ab', 'ba', 'x', 'xa', 'xyz', '?', '*', 'aab', '[', ']', 'ac']
        sr.note = (f'{len(words)} words x both orders x fnmatch / filter, flags {{0, DOTMATCH}}: the call with the string and the call with the list of its '
                   'characters, one after the other in one process, each judged by its own documented meaning (string: the spec matcher through '
                   'fnmatch.compile on a fresh pattern object is NOT used — literal/`?`/`*`/bracket meanings are written out here)')
        import re as _re

        def lang(p, n):          # documented meaning of these tiny patterns, written out (no dots in the names)
            rx = ''
            i = 0
            while i < len(p):
                c = p[i]
                if c == '?':
                    rx += '.'
                elif c == '*':
                    rx += '.*'
                elif c == '[' and ']' in p[i + 1:]:
                    j = p.index(']', i + 1)
                    rx += '[' + _re.escape(p[i + 1:j]) + ']'
                    i = j
                else:
                    rx += _re.escape(c)
                i += 1
            return _re.fullmatch(rx, n, _re.S) is not None
        for w_ in words:
            for fl in (F.FORCEUNIX, F.FORCEUNIX | F.DOTMATCH):
                for order in (0, 1):
                    seq = [('str', w_), ('list', list(w_))]
                    if order:
                        seq.reverse()
                    for kind, pat in seq:
                        for api in ('fnmatch', 'filter'):
                            sr.evaluations += 1
                            if api == 'fnmatch':
                                got = [bool(F.fnmatch(n, pat, flags=fl)) for n in names]
                            else:
                                keep = set(F.filter(names, pat, flags=fl))
                                got = [n in keep for n in names]
                            want = [lang(pat, n) if kind == 'str' else any(lang(q, n) for q in pat) for n in names]
                            if got != want:
                                bad = [n for n, a, b in zip(names, want, got) if a != b]
                                ck.report(Failing(f'{api}: pattern {pat!r} asked {"after" if (seq.index((kind, pat)) == 1) else "before"} {seq[1 - seq.index((kind, pat))][1]!r} in one process: '
                                                  f'wrong on {bad[:4]}', {'api': 'fnmatch.' + api, 'pattern': pat, 'flags': fl, 'history': [x[1] for x in seq], 'names': names},
                                                  want, got), None)
                                sr.histogram['FAIL'] = sr.histogram.get('FAIL', 0) + 1
                            else:
                                sr.histogram['holds'] = sr.histogram.get('holds', 0) + 1
        sr.distinct = len(words) * 4
    ck.search('string-vs-list-histories', s_hist)
    if drv:
        drv.close()
    return ck.finish()


def replay(path: str) -> int:
    import json
    common.import_wcmatch()
    from wcmatch import fnmatch as F
    data = json.load(open(path))
    for f in data.get('failing', []):
        i = f['input']
        print(i, '->', F.fnmatch(i['name'], i['pattern'], flags=i['flags']), 'expected', f['expected'])
    return 0

"""C17 — case and platform flags select a consistent matching mode.

Proof  : Properties/C17.lean — case table (CASE wins; IGNORECASE or Windows rules otherwise),
         FORCEWIN+FORCEUNIX cancel in both _flag_transforms (bit level, all flag words),
         case-insensitive regexes cannot see ASCII case of the subject or of pattern literals
         (`ci_closed`, every regex whose inline flag scopes are case-insensitive).
Tie    : K1 regex text under {CASE, IGNORECASE, FORCEWIN, FORCEUNIX} x fn/glob x str/bytes;
         certificate `allCi` of every emitted regex (with it `ci_closed` gives closure for ALL names).
Search : API-level closure checks: case mode selection, swapcase of the name and of literal
         pattern text, exact spelling in case-sensitive mode, `/`~`\\` interchange and the
         Unix+IGNORECASE equivalence under FORCEWIN, drive / UNC literal prefixes.
"""
from __future__ import annotations
import warnings

import common
import gen
import pathcheck as P
import streams
from framework import Check, Failing

warnings.simplefilter('ignore')
TARGETS = ['WcModel.Properties.C17']


def swap_ascii(s: str) -> str:
    return ''.join(c.swapcase() if c.isascii() else c for c in s)


def run(ck: Check) -> int:
    common.import_wcmatch()
    from wcmatch import glob as G, fnmatch as F, _wcparse as W
    ck.build()
    ck.audit()
    R = common.rng('C17')
    quick = ck.tier == 'quick'
    drv = common.Driver() if ck.driver_ok else None
    n = 3000 if quick else 40000
    fpats = [gen.gen_seq(R, 2, True, R.randint(1, 4)) for _ in range(n)]
    ppats = [P.gen_path(R) for _ in range(n)]
    winp = [gen.random_pattern(R, 6, True) for _ in range(n // 2)]
    plat = [0, W.CASE, W.IGNORECASE, W.CASE | W.IGNORECASE]
    force = [W.FORCEUNIX, W.FORCEWIN]

    def s_k1(sr):
        cases = []
        for p in fpats + ppats + winp:
            fl = R.choice(plat) | R.choice(force) | (W.PATHNAME if (p in ppats or R.random() < 0.5) else 0)
            fl |= gen.random_flags(R, [W.EXTMATCH, W.EXTMATCH, W.GLOBSTAR, W.DOTMATCH, W.REALPATH, W.MATCHBASE], 0.4)
            cases.append((p, streams.reachable(fl), R.random() < 0.25 and all(ord(c) < 256 for c in p)))
        for p in gen.win_drive_patterns(3 if quick else 4):
            for extra in (0, W.CASE, W.MATCHBASE | W.REALPATH):
                cases.append((p, W.FORCEWIN | W.PATHNAME | W.EXTMATCH | extra, False))
        for p in gen.token_sequences(3 if quick else 4):
            cases.append((p, W.FORCEWIN | W.PATHNAME | W.EXTMATCH | W.MATCHBASE | W.GLOBSTAR, False))
        streams.k1(sr, drv, cases)
        sr.note = ('K1 regex text under {CASE,IGNORECASE}x{FORCEWIN,FORCEUNIX}, fn and glob mode, str and bytes; every drive/UNC/device '
                   'shape of <= 3/4 components; parser-state token sequences under FORCEWIN|MATCHBASE')
    ck.stream('K1-parse-text', s_k1)

    def s_allci(sr):
        cases = []
        for p in fpats + ppats + winp:
            fl = R.choice(plat) | R.choice(force) | (W.PATHNAME if R.random() < 0.6 else 0) | W.EXTMATCH
            cases.append((p, streams.reachable(fl)))
        outs = drv.ask_many([f'allci {fl} 0 {common.enc(p)}' for p, fl in cases])
        for (p, fl), o in zip(cases, outs):
            sr.evaluations += 1
            f = o.split(' ')
            if f[0] != 'ok':
                sr.histogram[o] = sr.histogram.get(o, 0) + 1
                continue
            want_ci = not W.get_case(fl)
            if (f[2] == '1') != want_ci:
                sr.disagree({'stream': 'allci', 'pattern': p, 'flags': fl, 'model_ci': f[2], 'code_case_sensitive': not want_ci})
            if f[1] != '1':
                sr.disagree({'stream': 'allci', 'pattern': p, 'flags': fl, 'note': 'an inline flag scope of the emitted regex is case-sensitive'})
            else:
                sr.distinct += 1
        sr.samples.append({'certificate': 'allCi(inner regex) = true and the wrapper case flag = not get_case(flags)', 'n': sr.distinct})
        sr.note = 'per emitted regex: certificate allCi (hypothesis of ci_closed) and wrapper case flag == get_case'
    ck.stream('cert-allCi', s_allci)

    names = [x for x in gen.names_upto('abA.', 3) if x] + ['aB.c', 'AB', 'a.B', 'ab.A']

    def s_search(sr):
        deep = ck.deep()
        m = n if (deep or not quick) else 2000
        for k in range(m):
            sr.evaluations += 1
            p = fpats[k % len(fpats)]
            base = R.choice([F.FORCEUNIX, F.FORCEWIN, 0])
            cm = R.choice([0, F.CASE, F.IGNORECASE, F.CASE | F.IGNORECASE])
            fl = base | cm | F.EXTMATCH | (F.DOTMATCH if R.random() < 0.5 else 0)
            both = base | F.FORCEUNIX | F.FORCEWIN | cm | F.EXTMATCH
            try:
                with common.time_limit(5):
                    m1 = F.compile(p, flags=fl)
                    res = [m1.match(x) for x in names]
                    # case mode selected as documented
                    want_ci = not (cm & F.CASE) and (bool(cm & F.IGNORECASE) or base == F.FORCEWIN)
                    for x, r in zip(names, res):
                        sw = swap_ascii(x)
                        r2 = m1.match(sw)
                        if want_ci and bool(r) != bool(r2):
                            ck.report(Failing(f'case-insensitive mode distinguishes {x!r} and {sw!r} for {p!r}',
                                              {'api': 'fnmatch', 'pattern': p, 'name': x, 'flags': fl}, bool(r), bool(r2)), None)
                    if want_ci:
                        # literal pattern text may change case too
                        p2 = swap_ascii(p) if not any(ch in p for ch in '[:') else None
                        if p2 is not None:
                            m2 = F.compile(p2, flags=fl)
                            for x, r in zip(names, res):
                                if bool(m2.match(x)) != bool(r):
                                    ck.report(Failing(f'case-insensitive mode distinguishes patterns {p!r} and {p2!r} on {x!r}',
                                                      {'api': 'fnmatch', 'pattern': p, 'name': x, 'flags': fl}, bool(r), not bool(r)), None)
                    # FORCEWIN + FORCEUNIX cancel: same as neither
                    m3 = F.compile(p, flags=both)
                    m4 = F.compile(p, flags=cm | F.EXTMATCH)
                    for x in names:
                        if bool(m3.match(x)) != bool(m4.match(x)):
                            ck.report(Failing(f'FORCEWIN|FORCEUNIX does not cancel out for {p!r} on {x!r}',
                                              {'api': 'fnmatch', 'pattern': p, 'name': x, 'flags': both}, bool(m4.match(x)), bool(m3.match(x))), None)
            except common.CallTimeout:
                continue
            # ---- case-sensitive mode: literal text matches only its exact spelling
            lit = ''.join(R.choice('abAB.x-') for _ in range(R.randint(1, 5)))
            for base2 in (F.FORCEUNIX, F.FORCEWIN):
                for cm2 in (0, F.CASE, F.IGNORECASE, F.CASE | F.IGNORECASE):
                    ci2 = not (cm2 & F.CASE) and (bool(cm2 & F.IGNORECASE) or base2 == F.FORCEWIN)
                    other = swap_ascii(lit)
                    if other == lit:
                        continue
                    got = F.fnmatch(other, F.escape(lit), flags=base2 | cm2)
                    sr.evaluations += 1
                    if bool(got) != ci2:
                        ck.report(Failing(f'literal {lit!r} vs {other!r}: matched={bool(got)} but the case mode says case-insensitive={ci2}',
                                          {'api': 'fnmatch', 'pattern': F.escape(lit), 'name': other, 'flags': base2 | cm2}, ci2, bool(got)), None)
                    got2 = G.globmatch('d/' + other, 'd/' + G.escape(lit, unix=True), flags=(G.FORCEUNIX if base2 == F.FORCEUNIX else G.FORCEWIN) | cm2)
                    if bool(got2) != ci2:
                        ck.report(Failing(f'glob literal {lit!r} vs {other!r}: matched={bool(got2)}, case-insensitive={ci2}',
                                          {'api': 'globmatch', 'pattern': 'd/' + lit, 'name': 'd/' + other, 'flags': cm2}, ci2, bool(got2)), None)
            sr.distinct += 1
            # ---- Windows rules in FNMATCH mode: `/` written anywhere in the pattern (also inside an extended group) matches `/`
            # and `\\`; equals Unix+IGNORECASE on the normalised name (added after seeded change C17d)
            fq = R.choice(['@(a/b)', 'a/b', '?(a/)b', '!(a/b)', '*(a|b/)c', 'a@(/|x)b', '+(a/b|c)', 'a/*', '[ab]/?', '@(a|b)/@(a|b)', '*/!(a)'])
            if k % 3 == 0:
                fq = ppats[k % len(ppats)] if '\\' not in ppats[k % len(ppats)] else fq
            try:
                with common.time_limit(5):
                    fw = F.compile(fq, flags=F.EXTMATCH | F.FORCEWIN | F.DOTMATCH)
                    fu = F.compile(fq, flags=F.EXTMATCH | F.FORCEUNIX | F.IGNORECASE | F.DOTMATCH)
                    for x in ['a/b', 'a\\b', 'A\\b', 'a/', 'a\\', 'b', 'ab', 'a\\bc', 'a/bc', 'b\\a', 'a\\b\\c', 'c', 'a/a', 'b\\b', 'x/b']:
                        sr.evaluations += 1
                        if bool(fw.match(x)) != bool(fu.match(x.replace('\\', '/'))):
                            ck.report(Failing(f'fnmatch FORCEWIN on {x!r} differs from Unix+IGNORECASE on the normalised name for {fq!r}',
                                              {'api': 'fnmatch', 'pattern': fq, 'name': x, 'flags': F.EXTMATCH | F.FORCEWIN | F.DOTMATCH},
                                              bool(fu.match(x.replace('\\', '/'))), bool(fw.match(x))), None)
            except common.CallTimeout:
                pass
            # ---- Windows rules on paths: separators interchangeable; equals Unix+IGNORECASE on the normalised name
            q = ppats[k % len(ppats)]
            if k % 7 == 0:
                q = R.choice(['!(a)/b', 'a/!(b)/A', '!(a|b)b/b', '@(a)/b', '!(b)/!(a)', '*/!(b)/', 'a/!(a|b)', '!(a)/**/b', '**/!(b)/b'])
            if '\\' in q:
                continue
            gfl = G.EXTGLOB | (G.GLOBSTAR if R.random() < 0.6 else 0) | (G.DOTGLOB if R.random() < 0.4 else 0)
            try:
                with common.time_limit(5):
                    mw = G.compile(q, flags=gfl | G.FORCEWIN)
                    mu = G.compile(q, flags=gfl | G.FORCEUNIX | G.IGNORECASE)
                    for x in ['a/b', 'a\\b', 'A/b', 'a/b/', 'a\\b\\', 'ab', 'a//b', 'a\\/b', 'a.b/A', 'a\\.b']:
                        rw = bool(mw.match(x))
                        ru = bool(mu.match(x.replace('\\', '/')))
                        if rw != ru:
                            ck.report(Failing(f'FORCEWIN on {x!r} differs from Unix+IGNORECASE on the normalised name for {q!r}',
                                              {'api': 'globmatch', 'pattern': q, 'name': x, 'flags': gfl}, ru, rw), None)
                        # an escaped backslash in the pattern is a separator: same answers as `/`
                        # (patterns with groups too, and the name itself as well as below `x/`: added after seeded change C17f — the
                        # separator after a `!(…)` segment was stored before the group was closed)
                        if '/' in q and '[' not in q:
                            for extra in (0, G.MATCHBASE, G.MATCHBASE | G.GLOBSTAR):
                                for nm in ('x/' + x, x):
                                    a1 = bool(G.globmatch(nm, q, flags=gfl | G.FORCEWIN | extra))
                                    a2 = bool(G.globmatch(nm, q.replace('/', '\\\\'), flags=gfl | G.FORCEWIN | extra))
                                    if a1 != a2:
                                        ck.report(Failing(f'FORCEWIN: pattern {q!r} and its escaped-backslash spelling differ on {nm!r}',
                                                          {'api': 'globmatch', 'pattern': q.replace('/', '\\\\'), 'name': nm, 'flags': gfl | G.FORCEWIN | extra}, a1, a2), None)
                        if rw != bool(mw.match(x.replace('/', '\\'))):
                            ck.report(Failing(f'FORCEWIN distinguishes separator spellings of {x!r} for {q!r}',
                                              {'api': 'globmatch', 'pattern': q, 'name': x, 'flags': gfl}, rw, not rw), None)
            except common.CallTimeout:
                continue
            if len(sr.samples) < 3:
                sr.samples.append({'pattern': p, 'flags': hex(fl), 'path_pattern': q})
        # drive letters and UNC shares match only as literal, case-insensitive prefixes
        for drive, good, bad in [('c:/', ['c:/x', 'C:/x', 'c:\\x'], ['d:/x', 'c/x', 'x']),
                                 ('//host/share/', ['//host/share/x', '\\\\HOST\\share\\x'], ['//host/other/x', '/host/share/x']),
                                 ('//?/UNC/h/s/', ['//?/UNC/h/s/x', '//?/unc/H/s/x'], ['//?/UNC/h/t/x']),
                                 ('//?/c:/', ['//?/c:/x', '//?/C:/x'], ['//?/d:/x'])]:
            for cs in (0, G.CASE):
                m = G.compile(drive + '*', flags=G.FORCEWIN | cs)
                for x in good:
                    sr.evaluations += 1
                    if not m.match(x):
                        ck.report(Failing(f'drive prefix {drive!r} does not match {x!r}', {'api': 'globmatch', 'pattern': drive + '*', 'name': x, 'flags': G.FORCEWIN | cs}, True, False), None)
                for x in bad:
                    sr.evaluations += 1
                    if m.match(x):
                        ck.report(Failing(f'drive prefix {drive!r} matches {x!r}', {'api': 'globmatch', 'pattern': drive + '*', 'name': x, 'flags': G.FORCEWIN | cs}, False, True), None)
        # alternatives that differ only by case (list / BRACE / SPLIT), every subset of {CASE, IGNORECASE, FORCEWIN, FORCEUNIX}: the exact
        # spelling of ANY alternative always matches, another case variant exactly in case-insensitive mode (added after seeded change
        # C17e: the duplicate filter folded case by the platform, not by the effective mode)
        for words in (['Makefile', 'makefile'], ['ab', 'AB', 'aB'], ['x.TXT', 'x.txt']):
            variants = sorted({w for w in words} | {words[0].upper(), words[0].lower(), swap_ascii(words[0])})
            for mod, isg in ((F, False), (G, True)):
                for bits in range(16):
                    fl = ((mod.CASE if bits & 1 else 0) | (mod.IGNORECASE if bits & 2 else 0) | (mod.FORCEWIN if bits & 4 else 0)
                          | (mod.FORCEUNIX if bits & 8 else 0))
                    win = bool(bits & 4) and not bits & 8
                    if not bits & 12 or (bits & 12) == 12:
                        win = False         # host rules: Linux
                    ci = not bits & 1 and (bool(bits & 2) or win)
                    forms = [(list(words), fl), (list(reversed(words)), fl), ('{' + ','.join(words) + '}', fl | mod.BRACE),
                             ('|'.join(words), fl | mod.SPLIT), ('|'.join(reversed(words)), fl | mod.SPLIT)]
                    for pat, f2 in forms:
                        match = (lambda x: G.globmatch(x, pat, flags=f2)) if isg else (lambda x: F.fnmatch(x, pat, flags=f2))
                        flt = set((G.globfilter if isg else F.filter)(variants, pat, flags=f2))
                        for x in variants:
                            sr.evaluations += 1
                            exp = x in words or (ci and x.lower() in {w.lower() for w in words})
                            for api, got in (('match', bool(match(x))), ('filter', x in flt)):
                                if got != exp:
                                    ck.report(Failing(f'{mod.__name__}.{api}: alternatives {pat!r} on {x!r}: {got}, the case mode '
                                                      f'(case-insensitive={ci}) says {exp}',
                                                      {'api': mod.__name__, 'pattern': pat, 'name': x, 'flags': f2}, exp, got), None)
        sr.note = ('fnmatch: ASCII swapcase of names and of literal pattern text never changes the answer in case-insensitive mode; '
                   'case-variant alternatives (list/BRACE/SPLIT) x all 16 subsets of the four flags; '
                   'both FORCE flags cancel; glob FORCEWIN: separator spellings interchangeable and equal to Unix+IGNORECASE on the '
                   'normalised name (patterns without backslashes); drive/UNC prefixes literal and case-insensitive')
    ck.search('case-and-platform-api', s_search)

    def s_cancel(sr):
        # FORCEWIN together with FORCEUNIX cancel out — at EVERY entry point, translate and is_magic included (added after seeded
        # change C17h: fnmatch.translate masked its flags instead of transforming them, so its regexes followed Windows rules
        # while fnmatch.fnmatch with the same flags followed the host's)
        pats = ['a/B', 'A*', '[a-c]X', 'c:/x*', '//h/s/*', 'a\\\\b', '*/b', '@(a|B)/c', 'A', ['a', 'B/*'], '!A*']
        names = ['a/B', 'a/b', 'A', 'a', 'aX', 'AX', 'c:/xy', 'C:/xy', '//h/s/q', 'a\\b', 'a/b/', 'x/b', 'B/c', 'b/c', 'a\\B']
        sr.note = (f'{len(pats)} patterns x case flags {{none, CASE, IGNORECASE, both}} x {{EXTMATCH, NEGATE, DOTMATCH}}: every fnmatch / glob entry point '
                   '(fnmatch, filter, compile().match, translate, is_magic; globmatch, globfilter, compile().match, translate, is_magic, escape default) '
                   'with FORCEWIN|FORCEUNIX gives what it gives with neither')
        for p in pats:
            for cm in (0, F.CASE, F.IGNORECASE, F.CASE | F.IGNORECASE):
                for extra in (0, F.EXTMATCH, F.NEGATE | F.EXTMATCH, F.DOTMATCH):
                    for mod, nm in ((F, 'fnmatch'), (G, 'glob')):
                        base = cm | extra
                        both = base | mod.FORCEWIN | mod.FORCEUNIX
                        pm = (lambda x: x) if nm == 'fnmatch' else (lambda x: x)
                        calls = {
                            'translate': lambda fl: mod.translate(p, flags=fl),
                            'compile.match': lambda fl: [bool(mod.compile(p, flags=fl).match(x)) for x in names],
                            'is_magic': lambda fl: [mod.is_magic(q, flags=fl) for q in ([p] if isinstance(p, str) else p)],
                        }
                        if nm == 'fnmatch':
                            calls['fnmatch'] = lambda fl: [bool(F.fnmatch(x, p, flags=fl)) for x in names]
                            calls['filter'] = lambda fl: F.filter(names, p, flags=fl)
                        else:
                            calls['globmatch'] = lambda fl: [bool(G.globmatch(x, p, flags=fl)) for x in names]
                            calls['globfilter'] = lambda fl: G.globfilter(names, p, flags=fl)
                        for api, call in calls.items():
                            sr.evaluations += 1
                            try:
                                a, b = call(base), call(both)
                            except Exception as ex:  # noqa: BLE001
                                a, b = 'same', 'same'
                                try:
                                    call(base)
                                    b = f'{type(ex).__name__}'
                                    a = 'answer'
                                except Exception:  # noqa: BLE001
                                    pass
                            if a != b:
                                ck.report(Failing(f'{nm}.{api}: FORCEWIN|FORCEUNIX does not cancel out for {p!r}',
                                                  {'api': f'{nm}.{api}', 'pattern': p, 'flags': both, 'names': names}, str(a)[:300], str(b)[:300]), None)
                                sr.histogram['FAIL'] = sr.histogram.get('FAIL', 0) + 1
                            else:
                                sr.histogram['cancels'] = sr.histogram.get('cancels', 0) + 1
        sr.distinct = len(pats) * 32
    ck.search('force-flags-cancel-every-entry-point', s_cancel)

    def s_walker_case(sr):
        # the WALKER compares literal path segments itself (magic ones go through the compiled regex): both must follow the one case rule
        # — CASE wins over IGNORECASE (added after seeded change C17i: Glob.__init__ derived its own case mode from FORCEWIN|IGNORECASE)
        import os
        import shutil
        import tempfile
        from wcmatch import pathlib as WP
        tmp = tempfile.mkdtemp(prefix='c17w-', dir='/tmp')
        sr.note = ('glob / iglob / Path.glob on a tree with mixed-case names: patterns whose literal segments differ from the names only in ASCII '
                   'case x {none, IGNORECASE, CASE, IGNORECASE|CASE} (str and bytes): found exactly when the case rule in force is case-insensitive; '
                   'and glob agrees with globmatch on the found path')
        try:
            os.makedirs(os.path.join(tmp, 'Docs', 'Sub'))
            for f in ('Docs/ReadMe.txt', 'Docs/Sub/Note.md', 'TOP.txt'):
                open(os.path.join(tmp, f), 'w').close()
            cases = [('docs/*.txt', 'Docs/ReadMe.txt'), ('docs/readme.txt', 'Docs/ReadMe.txt'), ('DOCS/sub/*.md', 'Docs/Sub/Note.md'), ('top.txt', 'TOP.txt'),
                     ('*/SUB/note.md', 'Docs/Sub/Note.md'), ('docs/**/note.md', 'Docs/Sub/Note.md'), ('Docs/ReadMe.txt', 'Docs/ReadMe.txt'), ('d*/readme.TXT', 'Docs/ReadMe.txt')]
            for pat, target in cases:
                for cm in (0, G.IGNORECASE, G.CASE, G.IGNORECASE | G.CASE):
                    ci = bool(cm & G.IGNORECASE) and not cm & G.CASE
                    exact = pat.replace('*', '') in target or pat == target
                    want = [target] if (ci or pat == target) else []
                    fl = cm | G.GLOBSTAR
                    runs = [('glob', lambda: G.glob(pat, flags=fl, root_dir=tmp)),
                            ('iglob(bytes)', lambda: [os.fsdecode(x) for x in G.iglob(os.fsencode(pat), flags=fl, root_dir=os.fsencode(tmp))]),
                            ('Path.glob', lambda: [str(x.relative_to(tmp)) for x in WP.Path(tmp).glob(pat, flags=fl)])]
                    for api, call in runs:
                        sr.evaluations += 1
                        got = call()
                        if got != want:
                            ck.report(Failing(f'{api}({pat!r}) under the case flags {cm:#x}: {got} — the case rule in force is case-{"in" if ci else ""}sensitive',
                                              {'api': api, 'pattern': pat, 'flags': fl, 'tree': 'Docs/ReadMe.txt Docs/Sub/Note.md TOP.txt'}, want, got), None)
                            sr.histogram['FAIL'] = sr.histogram.get('FAIL', 0) + 1
                        else:
                            sr.histogram['holds'] = sr.histogram.get('holds', 0) + 1
                    if bool(G.globmatch(target, pat, flags=fl)) != bool(want):
                        ck.report(Failing(f'globmatch({target!r}, {pat!r}) under the case flags {cm:#x} is {not bool(want)}', {'api': 'globmatch', 'pattern': pat, 'name': target, 'flags': fl}, bool(want), not bool(want)), None)
            sr.distinct = len(cases) * 4
        finally:
            shutil.rmtree(tmp, ignore_errors=True)
    ck.search('walker-case-rule', s_walker_case)

    def s_fn_seps(sr):
        # Windows rules in fnmatch mode: `/` and `\\` in the NAME are interchangeable for every pattern, an escaped backslash inside a bracket
        # included (added after seeded change C17k: `[\\\\]` emitted `[\\\\]` instead of `[\\\\/]` in the non-pathname Windows case)
        pats = ['a[\\\\]b', 'a[!\\\\]b', '[\\\\]', 'a[x\\\\]b', 'a[\\\\/]b', 'a\\\\b', 'a/b', 'a?b', 'a*b', '@(a[\\\\]b|c)', 'a[\\\\]', '[\\\\]b', '*[\\\\]*', 'a[/]b', 'a[!/]b']
        names = ['a/b', 'a\\b', 'axb', '/', '\\', 'a/', 'a\\', '/b', '\\b', 'x/y/z', 'x\\y/z', 'c', 'ab']
        sr.note = (f'{len(pats)} patterns (brackets holding an escaped backslash, plain and negated; escaped and written separators) x {len(names)} names: under '
                   'FORCEWIN (± EXTMATCH, IGNORECASE, CASE; str and bytes) fnmatch / filter / compile answer the same for a name and for the name with its '
                   'separators swapped')

        def swap(n):
            return ''.join({'/': '\\', '\\': '/'}.get(ch, ch) for ch in n)
        for p_ in pats:
            for extra in (0, F.EXTMATCH, F.EXTMATCH | F.CASE, F.IGNORECASE):
                for isb in (False, True):
                    cv = (lambda z: z.encode('latin-1')) if isb else (lambda z: z)
                    fl = F.FORCEWIN | extra
                    m_ = F.compile(cv(p_), flags=fl)
                    for n in names:
                        sr.evaluations += 1
                        a, b = bool(m_.match(cv(n))), bool(m_.match(cv(swap(n))))
                        c_ = bool(F.fnmatch(cv(n), cv(p_), flags=fl))
                        if a != b or a != c_:
                            import re as _re
                            # KF-D39: a BARE `/` inside a bracket is copied as it is outside path mode (only the escaped separators know the
                            # Windows class): signature = the pattern has a bracket with an unescaped `/` and the two names differ at a separator
                            kid = 'KF-D39' if (a != b and _re.search(r'\[[^\]]*(?<!\\)/[^\]]*\]', p_.replace('\\\\', '')) is not None) else None
                            ck.report(Failing(f'fnmatch mode under FORCEWIN: pattern {p_!r} tells {n!r} from {swap(n)!r} (separators swapped)' if a != b else
                                              f'fnmatch and compile().match differ for {p_!r} on {n!r}',
                                              {'api': 'fnmatch', 'pattern': p_, 'name': n, 'flags': fl, 'bytes': isb}, a, b if a != b else c_), kid)
                            sr.histogram[kid or 'FAIL'] = sr.histogram.get(kid or 'FAIL', 0) + 1
                        else:
                            sr.histogram['holds'] = sr.histogram.get('holds', 0) + 1
        sr.distinct = len(pats) * 8
    ck.search('fnmatch-forcewin-separators-interchangeable', s_fn_seps)
    if drv:
        drv.close()
    return ck.finish()


def replay(path: str) -> int:
    import json
    common.import_wcmatch()
    from wcmatch import glob as G, fnmatch as F
    for f in json.load(open(path)).get('failing', []):
        i = f['input']
        fn = G.globmatch if i['api'] == 'globmatch' else F.fnmatch
        print(i, '->', fn(i['name'], i['pattern'], flags=i['flags']))
    return 0

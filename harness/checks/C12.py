"""C12 — glob results are well-formed and independent of how the root is given.

Proof part : Properties/C12.lean — iglob = glob (definitional); trailing separator rule of
             `_format_path`; NODIR wiring + the no-directory regex rejects every directory candidate
             for every tree / part list / flag word; dir_fd witness; `D18_D16_fixed_witness` (both repaired).
Tie        : K5 — ONE model run (plus one with the `dir_fd` switch) against FIVE real runs of every
             case: root_dir as str, bytes and PathLike, dir_fd, and cwd (event sequences).
Search     : on the real code, every result of every run: lexists, relative/absolute spelling,
             trailing separator ⇔ directory ∧ (pattern ended with a separator ∨ MARK), never a
             directory under NODIR and no existing non-directory lost to NODIR, iglob list = glob list,
             and the five runs return the same list.
"""
from __future__ import annotations
import os
import warnings

import common
import k5_glob as K
from framework import Check, Failing

warnings.simplefilter('ignore')
TARGETS = ['WcModel.Properties.C12']
MODES = ['root_dir', 'bytes', 'pathlike', 'cwd', 'dir_fd']
FLAGS = ['MARK', 'NODIR', 'GLOBSTAR', 'DOTGLOB', 'SCANDOTDIR', 'MATCHBASE', 'BRACE', 'SPLIT', 'NEGATE', 'EXTGLOB',
         'IGNORECASE', 'GLOBSTARLONG', 'NOUNIQUE']


def _flags(R, G, t, text):
    fl = 0
    for nm in FLAGS:
        pr = {'GLOBSTAR': 0.6, 'EXTGLOB': 0.5, 'MARK': 0.35, 'NODIR': 0.3, 'BRACE': 0.1, 'SPLIT': 0.1, 'NEGATE': 0.1,
              'IGNORECASE': 0.1, 'NOUNIQUE': 0.1}.get(nm, 0.2)
        if R.random() < pr:
            fl |= getattr(G, nm)
    if t.cyclic and '***' in text:
        fl &= ~G.GLOBSTARLONG
    return fl


def run(ck: Check) -> int:
    common.import_wcmatch()
    from wcmatch import glob as G, _wcparse as W, util as U
    ck.build()
    ck.audit()
    R = common.rng('C12')
    drv = common.Driver() if ck.driver_ok else None
    quick = ck.tier == 'quick'
    ntrees, per = (300, 10) if quick else (10000, 12)
    found: list = []
    stats = {'results_checked': 0, 'runs': 0, 'root_independence_groups': 0, 'iglob_vs_glob': 0}
    group: dict = {}

    def cases(R_, t):
        out = []
        for _ in range(per):
            rr = R_.random()
            if rr < 0.07 and t.names:
                nm = G.escape(R_.choice(sorted(t.names)))       # the same literal with and without a trailing separator (seeded C12d)
                pats = R_.choice([[nm, nm + '/'], [nm + '/', nm], nm + '{,/}', nm + '|' + nm + '/'])
            elif rr < 0.8:
                pats = K.gen_pattern(R_, G, t)
            else:
                pats = [K.gen_pattern(R_, G, t) for _ in range(2)]
            text = pats if isinstance(pats, str) else ' '.join(pats)
            fl = _flags(R_, G, t, text)
            if isinstance(pats, str) and '{,/}' in pats:
                fl |= G.BRACE
            if isinstance(pats, str) and pats.endswith('/') and '|' in pats and not pats.startswith(('*', '?', '[')) and rr < 0.07:
                fl |= G.SPLIT
            excl = [K.gen_pattern(R_, G, t, False)] if R_.random() < 0.1 else None
            for m in MODES:
                out.append(K.Case(pats, fl, excl, m))
        return out

    def report(f, kid):
        if kid:
            stats[kid] = stats.get(kid, 0) + 1
            ck.report(f, kid)
        else:
            found.append(f)

    def on_case(t, c, st, ev, ms, mev):
        if st != 'ok':
            return
        stats['runs'] += 1
        res = [p for k, p in ev if k == 'y']
        key = (t.enc, repr(c.pats), c.flags, repr(c.exclude))
        group.setdefault(key, {})[c.mode] = res
        if len(group[key]) == len(MODES):
            stats['root_independence_groups'] += 1
            g = group.pop(key)
            base = g['root_dir']
            for m in MODES[1:]:
                if g[m] != base:
                    diff = set(g[m]) ^ set(base)
                    # D17 through dir_fd: the fake `.`/`..` of a non-directory are not produced
                    def _ex(x):
                        return os.path.lexists(os.path.join(t.root, x))
                    d17 = m == 'dir_fd' and diff and all(not _ex(x) for x in diff)
                    if not d17 and m == 'dir_fd' and diff and c.flags & G.IGNORECASE and not c.flags & G.CASE:
                        # … and under IGNORECASE the fake entry of the non-directory `A` occupies the case-folded seen key (KF-G2), so
                        # the real `a/.` is missing from the root_dir run and present in the dir_fd run: every existing member of the
                        # difference has a non-existing case twin in it
                        d17 = all(any(y != x and y.lower() == x.lower() and not _ex(y) for y in diff) for x in diff if _ex(x)) and \
                            any(not _ex(x) for x in diff)
                    report(Failing(f'results differ between root_dir=str and {m}', c.to_json(G, t), base[:10], g[m][:10],
                                   'wcmatch/glob.py:624-664'), 'KF-G4' if d17 else None)
        if c.mode != 'root_dir':
            return
        # iglob (the events) vs glob (a second real run)
        stats['iglob_vs_glob'] += 1
        try:
            kw = {'exclude': c.exclude} if c.exclude is not None else {}
            lst = G.glob(c.pats, flags=c.flags, root_dir=t.root, **kw)
            if lst != res:
                found.append(Failing('glob() differs from list(iglob())', c.to_json(G, t), res[:10], lst[:10], 'wcmatch/glob.py:867-899'))
        except Exception:  # noqa: BLE001
            pass
        pats = [c.pats] if isinstance(c.pats, str) else list(c.pats)
        simple = len(pats) == 1 and not c.flags & (G.BRACE | G.SPLIT | G.NEGATE) and c.exclude is None
        for r in res:
            stats['results_checked'] += 1
            full = r if r.startswith('/') else os.path.join(t.root, r)
            exists = os.path.lexists(full)
            isdir = os.path.isdir(full)
            if not exists:
                report(Failing(f'result {r!r} does not exist', c.to_json(G, t), 'lexists', r, 'wcmatch/glob.py:640-645, 741-742'),
                       'KF-D17' if K.d17_shape(G, t, c.pats, c.flags, r) else None)
                continue
            if simple and r.startswith('/') != pats[0].startswith('/'):
                found.append(Failing(f'result {r!r}: relative/absolute spelling differs from the pattern', c.to_json(G, t),
                                     pats[0][:1], r[:1], 'wcmatch/glob.py:821-832'))
            if r.endswith('/') and not isdir:
                report(Failing(f'result {r!r} ends with a separator but is not a directory', c.to_json(G, t), 'directory', r,
                               'wcmatch/glob.py:741-742, 810'), 'KF-D17' if K.d17_shape(G, t, c.pats, c.flags, r) else None)
            if simple and isdir and (pats[0].endswith('/') or c.flags & G.MARK) and not r.endswith('/'):
                found.append(Failing(f'directory result {r!r} lacks the separator', c.to_json(G, t), r + '/', r,
                                     'wcmatch/glob.py:807-812'))
            if simple and r.endswith('/') and isdir and not (pats[0].endswith('/') or c.flags & G.MARK):
                # allowed only for the zero-level result of a final `**` and for a bare `/`
                segs = [s for s in pats[0].split('/') if s]
                globstar = bool(c.flags & (G.GLOBSTAR | G.GLOBSTARLONG))
                ok = (globstar and segs and segs[-1] in ('**', '***')) or r == '/' or \
                    (c.flags & G.MATCHBASE and globstar)
                if not ok:
                    found.append(Failing(f'result {r!r} ends with a separator although the pattern does not and MARK is off',
                                         c.to_json(G, t), r.rstrip('/'), r, 'wcmatch/glob.py:807-812'))
            if c.flags & G.NODIR and isdir:
                # no exemption: D18 (a directory whose path contains a newline survived) is repaired
                report(Failing(f'directory {r!r} returned under NODIR', c.to_json(G, t), 'no directory', r,
                               'wcmatch/_wcparse.py:95-102 (RE_NO_DIR)'), None)
        if c.flags & G.NODIR:
            # the other direction (D16, repaired: the Windows regex took a final backslash for a separator):
            # NODIR removes directories only — every existing non-directory returned without NODIR is still returned
            stats['nodir_vs_plain'] = stats.get('nodir_vs_plain', 0) + 1
            try:
                kw = {'exclude': c.exclude} if c.exclude is not None else {}
                plain = G.glob(c.pats, flags=c.flags & ~G.NODIR, root_dir=t.root, **kw)
            except Exception:  # noqa: BLE001
                plain = []
            have = set(res)
            for r in plain:
                full = r if r.startswith('/') else os.path.join(t.root, r)
                if r not in have and not r.endswith('/') and os.path.lexists(full) and not os.path.isdir(full):
                    report(Failing(f'non-directory {r!r} is dropped by NODIR', c.to_json(G, t), r, 'absent',
                                   'wcmatch/glob.py:457-458, 467-468 (re_no_dir)'), None)

    def s_k5(sr):
        sr.note = ('K5: every case run five times on the real code (root_dir str / bytes / PathLike, dir_fd, cwd) against the '
                   'Lean walker (fdMode switch for dir_fd): interleaved scandir/os.open calls and results')
        K.k5_loop(sr, drv, G, W, U, R, ntrees, cases, on_case)
    ck.stream('K5-five-roots', s_k5)

    def s_search(sr):
        sr.note = 'every result of every real run checked against the OS; five root mechanisms compared; glob() vs iglob()'
        # the file-system root itself (a result spelled exactly `/`): never under NODIR, a directory with its separator otherwise
        # (added after seeded change C12f: the NODIR regex demanded a non-empty prefix before the final separator)
        for pat, extra in (('/', 0), ('//', 0), ('///', 0), (['/', 'zz-nothing'], 0), ('{/,zz-nothing/}', G.BRACE), ('zz-nothing|/', G.SPLIT),
                           (b'/', 0), ('/.', 0), ('/..', 0), ('/./', 0)):
            for fl0 in (0, G.MARK, G.GLOBSTAR, G.MARK | G.GLOBSTAR | G.DOTGLOB):
                for api in ('glob', 'iglob'):
                    stats['results_checked'] += 1
                    try:
                        with_nodir = list(getattr(G, api)(pat, flags=fl0 | extra | G.NODIR))
                        without = list(getattr(G, api)(pat, flags=fl0 | extra))
                    except Exception as e:      # noqa: BLE001
                        found.append(Failing(f'{api}({pat!r}) raised {type(e).__name__}', {'api': api, 'pattern': repr(pat), 'flags': fl0 | extra},
                                             'a list', str(e)[:200]))
                        continue
                    dirs = [r for r in with_nodir if os.path.isdir(r)]
                    if dirs:
                        found.append(Failing(f'directory {dirs[0]!r} returned under NODIR', {'api': api, 'pattern': repr(pat),
                                                                                             'flags_int': fl0 | extra | G.NODIR},
                                             'no directory', with_nodir, 'wcmatch/_wcparse.py:95-102 (RE_NO_DIR)'))
                    if not without or not all(os.path.isdir(r) for r in without):
                        found.append(Failing(f'{api}({pat!r}) without NODIR does not return the root directory', {'api': api, 'pattern': repr(pat),
                                                                                                               'flags_int': fl0 | extra},
                                             'the root directory', without))
        sr.histogram = dict(stats)
        sr.evaluations = stats['results_checked'] + stats['root_independence_groups']
        sr.distinct = stats['runs']
        for f in found:
            ck.report(f, None)
    ck.search('results-well-formed', s_search)

    def s_spellings(sr):
        # "the results are the same whether the root is given as root_dir (str, bytes or path-like), as dir_fd, or by changing the working
        # directory" — for every SPELLING of the root the OS resolves to the same directory, `..` after a symlinked directory included
        # (added after seeded change C12g: root_dir went through os.path.normpath, which collapses `link/..` lexically)
        import pathlib
        import shutil
        import tempfile
        tmp = tempfile.mkdtemp(prefix='c12s-', dir='/tmp')
        sr.note = ('one tree, the directory R = T/far named by 8 spellings (trailing separator, `/.`, `./`, `top/../far`, `top/link/..` with link -> '
                   '../far/deep, doubled separators) x root_dir str / bytes / PathLike / dir_fd opened on the spelling, against the cwd run; every '
                   'result exists relative to the spelling; 12 patterns x 5 flag words')
        bad: list = []
        try:
            for d in ('top', 'far/deep', 'far/d', 'far/.hd'):
                os.makedirs(os.path.join(tmp, d))
            for f in ('top/a.txt', 'far/f.txt', 'far/deep/x', 'far/d/y.txt', 'far/.hf'):
                open(os.path.join(tmp, f), 'w').close()
            os.symlink('../far/deep', os.path.join(tmp, 'top', 'link'))
            os.symlink('d', os.path.join(tmp, 'far', 'ld'))
            real = os.path.join(tmp, 'far')
            spellings = [real, real + '/', real + '/.', os.path.join(tmp, '.', 'far'), os.path.join(tmp, 'top', '..', 'far'),
                         os.path.join(tmp, 'top', 'link', '..'), os.path.join(tmp, 'top', 'link', '..', '.'), tmp + '//far//']
            pats = ['*', '**', '*/', 'd*', 'f.txt', '*/*', 'deep/x', '.*', '**/*.txt', ['*.txt', 'd*/'], 'ld/*', '*/.']
            old = os.getcwd()
            for p in pats:
                for fl in (0, G.GLOBSTAR, G.MARK, G.GLOBSTAR | G.DOTGLOB, G.NODIR):
                    try:
                        os.chdir(real)
                        want = G.glob(p, flags=fl)
                    finally:
                        os.chdir(old)
                    for sp in spellings:
                        bp = os.fsencode(p) if isinstance(p, str) else [os.fsencode(q) for q in p]
                        runs = [('root_dir=str', lambda: G.glob(p, flags=fl, root_dir=sp)),
                                ('root_dir=bytes', lambda: [os.fsdecode(x) for x in G.glob(bp, flags=fl, root_dir=os.fsencode(sp))]),
                                ('root_dir=PathLike', lambda: G.glob(p, flags=fl, root_dir=pathlib.PurePosixPath(sp) if sp.endswith(('/.', '/')) else pathlib.Path(sp)))]
                        fd = os.open(sp, os.O_RDONLY | os.O_DIRECTORY)
                        try:
                            runs.append(('dir_fd', lambda: G.glob(p, flags=fl, dir_fd=fd)))
                            for how, call in runs:
                                sr.evaluations += 1
                                try:
                                    got = call()
                                except Exception as ex:  # noqa: BLE001
                                    got = f'{type(ex).__name__}: {ex}'
                                rel = sp[len(tmp) + 1:]
                                if got != want:
                                    bad.append(Failing(f'results differ between the working directory and {how} spelled {rel!r}',
                                                       {'pattern': p, 'flags': fl, 'root': how, 'spelling': rel,
                                                        'tree': 'T/top/{a.txt, link -> ../far/deep}  T/far/{f.txt, deep/x, d/y.txt, .hd/, .hf, ld -> d}'},
                                                       want[:10], got if isinstance(got, str) else got[:10], 'wcmatch/glob.py:Glob.__init__ (root_dir), _iter'))
                                    sr.histogram['FAIL'] = sr.histogram.get('FAIL', 0) + 1
                                else:
                                    sr.histogram['same'] = sr.histogram.get('same', 0) + 1
                                if isinstance(got, list):
                                    for r in got:
                                        if not os.path.lexists(os.path.join(sp, r)):
                                            bad.append(Failing(f'result {r!r} does not exist relative to the root as given ({how}, {rel!r})',
                                                               {'pattern': p, 'flags': fl, 'root': how, 'spelling': rel}, 'exists', 'missing'))
                        finally:
                            os.close(fd)
            sr.distinct = len(pats) * 5 * len(spellings)
        finally:
            shutil.rmtree(tmp, ignore_errors=True)
        for f in bad[:20]:
            ck.report(f, None)
    ck.search('root-spellings', s_spellings)

    def s_cwd_hist(sr):
        # the working directory as root, in a history: an iglob relative to the cwd is half consumed, an ANCESTOR of the cwd is renamed (the
        # tree below the root is untouched; `.` and an open descriptor still name it), the iterator is drained — same list as through dir_fd
        # and as a fresh glob (added after seeded change C12i: Glob.__init__ pinned os.getcwd() as an absolute root_dir)
        import shutil
        import tempfile
        sr.note = ('iglob relative to the working directory, one value taken, an ancestor directory renamed, the rest taken: equals glob(dir_fd=) opened '
                   'before the rename, glob(root_dir=".") and a fresh glob(); patterns **, */*, *, d/** x {GLOBSTAR, GLOBSTAR|MARK}')
        old = os.getcwd()
        for pat in ('**', '*/*', '*', 'd/**', '**/*.txt'):
            for fl in (G.GLOBSTAR, G.GLOBSTAR | G.MARK):
                tmp = tempfile.mkdtemp(prefix='c12h-', dir='/tmp')
                fd = None
                try:
                    root = os.path.join(tmp, 'work', 'root')
                    os.makedirs(os.path.join(root, 'd', 'e'))
                    os.makedirs(os.path.join(root, 'a'))
                    for f in ('top.txt', 'd/g.txt', 'd/e/h.txt', 'a/b.txt'):
                        open(os.path.join(root, f), 'w').close()
                    os.chdir(root)
                    fd = os.open('.', os.O_RDONLY | os.O_DIRECTORY)
                    want = G.glob(pat, flags=fl, dir_fd=fd)
                    it = G.iglob(pat, flags=fl)
                    got = [next(it)] if want else []
                    os.rename(os.path.join(tmp, 'work'), os.path.join(tmp, 'moved'))
                    got += list(it)
                    fresh = G.glob(pat, flags=fl)
                    dot = G.glob(pat, flags=fl, root_dir='.')
                    sr.evaluations += 3
                    for how, lst in (('iglob (half consumed before the rename)', got), ('glob() after the rename', fresh), ("glob(root_dir='.') after the rename", dot)):
                        if lst != want:
                            ck.report(Failing(f'{how} relative to the working directory differs from glob(dir_fd=) on the same directory',
                                              {'pattern': pat, 'flags': fl, 'history': 'chdir(root); it = iglob(p); next(it); rename(ancestor); list(it)'}, want, lst), None)
                            sr.histogram['FAIL'] = sr.histogram.get('FAIL', 0) + 1
                        else:
                            sr.histogram['same'] = sr.histogram.get('same', 0) + 1
                finally:
                    os.chdir(old)
                    if fd is not None:
                        os.close(fd)
                    shutil.rmtree(tmp, ignore_errors=True)
        sr.distinct = 10
    ck.search('cwd-history', s_cwd_hist)

    def s_fd_in_use(sr):
        # dir_fd while the caller itself is reading that descriptor: a half-consumed os.scandir(fd) is still open when glob runs through the
        # same fd — same list as through root_dir (added after seeded change C12k: the walker scanned the caller's descriptor directly instead of
        # opening the directory again, so it shared the caller's read offset and saw only the tail of the directory, or nothing)
        import shutil
        import tempfile
        tmp = tempfile.mkdtemp(prefix='c12f-', dir='/tmp')
        sr.note = ('a directory of 40 entries; fd = os.open(dir); it = os.scandir(fd); k entries taken (k = 0, 1, 5, all); glob / iglob through dir_fd=fd '
                   '(str and bytes, *, **, *.txt, */, NODIR) = through root_dir; twice in a row; the scandir iterator is closed afterwards')
        try:
            os.makedirs(os.path.join(tmp, 'sub'))
            for k in range(36):
                open(os.path.join(tmp, f'f{k:02d}.txt' if k % 3 else f'g{k:02d}.py'), 'w').close()
            open(os.path.join(tmp, 'sub', 's.txt'), 'w').close()
            os.symlink('sub', os.path.join(tmp, 'lnk'))
            for pat, fl in (('*', 0), ('**', G.GLOBSTAR), ('*.txt', 0), ('*/', 0), ('*', G.NODIR), ('**/*.txt', G.GLOBSTAR)):
                want = sorted(G.glob(pat, flags=fl, root_dir=tmp))
                for k in (0, 1, 5, 100):
                    fd = os.open(tmp, os.O_RDONLY | os.O_DIRECTORY)
                    it = os.scandir(fd)
                    try:
                        for _ in range(k):
                            if next(it, None) is None:
                                break
                        runs = [('glob', sorted(G.glob(pat, flags=fl, dir_fd=fd))), ('glob again', sorted(G.glob(pat, flags=fl, dir_fd=fd))),
                                ('iglob(bytes)', sorted(os.fsdecode(x) for x in G.iglob(os.fsencode(pat), flags=fl, dir_fd=fd)))]
                    finally:
                        it.close()
                        os.close(fd)
                    for how, got in runs:
                        sr.evaluations += 1
                        if got != want:
                            ck.report(Failing(f'{how}({pat!r}, dir_fd=fd) while os.scandir(fd) has been read {k} entries deep differs from glob(root_dir=)',
                                              {'pattern': pat, 'flags': fl, 'history': f'fd = open(dir); it = scandir(fd); {k} x next(it); glob(dir_fd=fd)'},
                                              f'{len(want)} paths', f'{len(got)} paths: {got[:5]}'), None)
                            sr.histogram['FAIL'] = sr.histogram.get('FAIL', 0) + 1
                        else:
                            sr.histogram['same'] = sr.histogram.get('same', 0) + 1
            sr.distinct = 24
        finally:
            shutil.rmtree(tmp, ignore_errors=True)
    ck.search('descriptor-in-use', s_fd_in_use)
    if drv:
        drv.close()
    return ck.finish(assumptions=[
        'root_dir / dir_fd / cwd equivalence is OS behaviour: one abstract root in the model, five real runs compared',
        'the abstraction of the tree is computed by querying the OS after the tree is built'])


def replay(path: str) -> int:
    import json
    common.import_wcmatch()
    from wcmatch import glob as G
    data = json.load(open(path))
    for f in data.get('failing', []):
        i = f['input']
        t = K.make_tree(common.rng('replay'), [tuple(x) for x in i['tree']])
        try:
            for m in MODES:
                st, ev = K.run_real(G, t, i['pattern'], i['flags_int'], i.get('exclude'), m)
                print(m, st, [p for k, p in ev if k == 'y'][:20])
        finally:
            t.remove()
    return 0

"""C14 — WcMatch returns exactly the files a filtered directory walk selects.

Proof part : Properties/C14.lean over Model/WcWalk.lean (all trees, all decision functions, all flag
             records): results = (reachable).filter selected, skipped = visited − returned, no file
             twice, empty pattern rules, independence from link targets without SYMLINKS, generated facts
             about `_parse_flags` / `_compile_wildcard`.
Tie        : K7 — a recording subclass of WcMatch vs the Lean walk model on generated REAL trees
             (abstraction by querying the OS) × flag subsets × file/exclude patterns; the pattern
             decisions handed to the model come from `fnmatch.fnmatch` / `glob.globmatch`, not from
             WcMatch's own matchers.  Full event sequence (polls, hook calls, yields) and get_skipped().
             K7-patterns — the same cases and pattern-only cases (wilder patterns, bytes root, limit=) with the two
             pattern STRINGS handed to the model (`wcwalkp` / `wcspecp`: `Cfg.ofPatterns`, Model/WcCompile.lean — WcMatch's
             flag arithmetic, _compile_wildcard, _compile, compile_pattern, WcRegexp.match inside the model; theorems
             Properties/C14e2e.lean).
Search     : plain `WcMatch(...).match()` / `imatch()` / `get_skipped()` vs the specification computed
             (a) in Python from os.scandir + the public-API decisions and (b) by the Lean spec
             (`wcspec`) — a disagreement is a failing input.
"""
from __future__ import annotations
import itertools
import json
import os

import common
import k7_wcwalk as K
from framework import Check, Failing

TARGETS = ['WcModel.Properties.C14', 'WcModel.Properties.C14e2e']

FIXED = [
    # an excluded directory that is also a symlink; a hidden directory; nested same-named folders
    {'a': {'a': {'a': {'f': None, '.h': None}, 'b': None}, 'x.b': None}, '.hd': {'a': None, 'skipme': {'z': None}},
     'skipme': ('link', 'a/a'), 'lf': ('link', 'a/x.b'), 'dang': ('link', 'nowhere'), 'b': None, '.h': None},
    {'skipme': {'s': None}, 'keep': {'skipme': {'t': None}, 'k': None}, 'L': ('link', 'keep'), 'f.txt': None},
    {'A': {'a': None, 'B.txt': None}, 'a': {'A': None}, 'ab': None, 'a.b': {'a.b': None}},
    {},
    {'d': {}, 'e': {'e': {}}},
    # names that begin with a parenthesis (`!(` / `-(` at the head of an alternative)
    {'(a)': None, '(a)b': {'(a)': None, 'a': None, '-(a)': None}, 'a': None, '!(a)': None, '(keep)': {'k': None}},
]


def _cases(ck: Check, R, WM):
    """yield (root-context-manager, [(flags, fpat, xpat)])"""
    quick = ck.tier == 'quick' and not ck.deep()
    walk5 = [WM.RECURSIVE, WM.HIDDEN, WM.SYMLINKS, WM.FILEPATHNAME, WM.DIRPATHNAME]
    pats = [(K.Pat([(False, False, '*')]), K.Pat([(False, False, 'skipme')])),
            (K.Pat([(False, False, '**/a'), (True, False, '**/.h')]), K.Pat([(True, False, 'a'), (True, False, 'a/**')])),
            (K.Pat([]), K.Pat([])),
            (K.Pat([(True, False, '*.b')]), K.Pat([(False, True, 'skipme')]))]
    for spec in FIXED:
        cfgs = []
        for r in range(len(walk5) + 1):
            for sub in itertools.combinations(walk5, r):
                fl = 0
                for b in sub:
                    fl |= b
                for extra in ((0, WM.GLOBSTAR | WM.MATCHBASE) if not quick else (WM.GLOBSTAR,)):
                    for fp, xp in (pats if not quick else pats[:2] + pats[2:3]):
                        cfgs.append((fl | extra, fp, xp))
        yield K.TempTree(spec=spec), cfgs
    n_trees = 2000 if quick else 15000
    per = 8 if quick else 14
    for _ in range(n_trees):
        tt = K.TempTree(R, max_entries=12 if R.random() < 0.8 else 18)
        yield tt, per


# pattern-only cases of K7-patterns (no oracle): per generated tree
WILD_PER_TREE_QUICK, WILD_PER_TREE = 3, 8
WILD_LIMITS = [None] * 10 + [0, 1, 2, 3, 5, -1]
FIXED_WILD = [
    # (flags by name, file pattern, exclude pattern): the glue cases named in the task, on every fixed tree
    (('RECURSIVE',), '', ''), (('RECURSIVE', 'HIDDEN'), '', 'skipme'), (('RECURSIVE',), '*|!a', ''),
    (('RECURSIVE', 'MINUSNEGATE'), '*|-a', '-skipme'), (('RECURSIVE', 'MINUSNEGATE'), '!a|-b', '!skipme'),
    (('RECURSIVE', 'FILEPATHNAME', 'MATCHBASE'), '/a|x.b', ''), (('RECURSIVE', 'FILEPATHNAME', 'MATCHBASE'), 'a', ''),
    (('RECURSIVE', 'FILEPATHNAME'), 'a', ''), (('RECURSIVE', 'FILEPATHNAME', 'GLOBSTAR'), '**/a|!/a/a/**', ''),
    (('RECURSIVE', 'DIRPATHNAME', 'MATCHBASE'), '', '/skipme'), (('RECURSIVE', 'DIRPATHNAME', 'MATCHBASE'), '', 'skipme'),
    (('RECURSIVE', 'DIRPATHNAME'), '', 'skipme/'), (('RECURSIVE', 'DIRPATHNAME'), '', 'keep/skipme'),
    (('RECURSIVE', 'PATHNAME', 'MATCHBASE', 'HIDDEN'), '/.h|f', '!/a'), (('RECURSIVE', 'MATCHBASE'), '/a', '/skipme'),
    (('RECURSIVE', 'HIDDEN'), '.*', ''), (('RECURSIVE', 'HIDDEN'), '*', ''), (('RECURSIVE',), '.*', '.*'),
    (('RECURSIVE', 'IGNORECASE'), 'a*|B*', 'SKIPME'), (('RECURSIVE', 'CASE'), 'a*|B*', 'SKIPME'),
    (('RECURSIVE', 'IGNORECASE', 'CASE'), 'A', 'A'), (('RECURSIVE', 'BRACE'), '{a,b}|!{b,f}', '{skipme,A}'),
    (('RECURSIVE', 'EXTMATCH'), '!(a)', '!(skipme|a)'), (('RECURSIVE', 'EXTMATCH', 'MINUSNEGATE'), '-(a)|*', ''),
    (('RECURSIVE', 'EXTMATCH', 'MINUSNEGATE'), '-(a)', '-(keep)'), (('RECURSIVE', 'EXTMATCH', 'MINUSNEGATE'), '!(a)', '*|-(keep)'),
    (('RECURSIVE', 'MINUSNEGATE'), '-(a)', '-(keep)'), (('RECURSIVE', 'EXTMATCH'), '!(a)|*b', '!(keep)'), (('RECURSIVE',), '!(a)', '!(keep)'),
    (('RECURSIVE', 'RAWCHARS'), '\\x61|\\N{LATIN SMALL LETTER B}', '\\x73kipme'), (('RECURSIVE',), '!', '!'),
    (('RECURSIVE',), '|', '|'), (('RECURSIVE', 'BRACE'), '{a,b}{a,b}|{a,b}', ''),
]


def run(ck: Check) -> int:
    common.import_wcmatch()
    from wcmatch import wcmatch as WM
    ck.build()
    ck.audit()
    R = common.rng('C14')
    drv = common.Driver() if ck.driver_ok else None
    shared: dict = {'cases': []}
    fixed_roots: set = set()

    def each_case():
        """generate (Case) objects; trees live only while the generator is advanced"""
        for tt, cfgs in _cases(ck, R, WM):
            with tt as root:
                if tt.spec is not None:
                    fixed_roots.add(root)
                cyc = K.is_cyclic(root)
                if isinstance(cfgs, int):
                    cfgs = [(K.gen_flags(R, WM, cyc), K.gen_pat(R, K.FILE_BODIES), K.gen_pat(R, K.DIR_BODIES, 0.3))
                            for _ in range(cfgs)]
                for fl, fp, xp in cfgs:
                    if cyc:
                        fl &= ~WM.SYMLINKS
                    try:
                        yield K.Case(root, fl, fp, xp)
                    except K.Cyclic:
                        continue

    def wild_cases(root, cyc, n, fixed):
        """pattern-only cases on the tree at `root`"""
        todo = []
        if fixed:
            for names, fp, xp in FIXED_WILD:
                fl = 0
                for nm in names:
                    fl |= getattr(WM, nm)
                for isb in (False, True):
                    todo.append((fl, K.RawPat(fp), K.RawPat(xp), isb, None))
            for fp, xp, lim in (('a|b|c', '', 2), ('a|b|c', '', 3), ('a', 'a|b|c', 2), ('a|a|a', '', 2), ('{a,b,c}', 'x|y', 2)):
                todo.append((WM.RECURSIVE | WM.BRACE, K.RawPat(fp), K.RawPat(xp), False, lim))
        for _ in range(n):
            todo.append((K.gen_flags_wild(R, WM, cyc), K.gen_wild(R), K.gen_wild(R, 0.3), R.random() < 0.25, R.choice(WILD_LIMITS)))
        for fl, fp, xp, isb, lim in todo:
            if cyc:
                fl &= ~WM.SYMLINKS
            try:
                yield K.Case(root, fl, fp, xp, with_tables=False, isb=isb, limit=lim)
            except K.Cyclic:
                continue

    # one pass over the generated trees feeds both the stream and the search
    stream_rows: list = []
    search_rows: list = []
    pat_rows: list = []          # K7-patterns: (description, `wcwalkp` line, real event sequence)
    pat_spec_rows: list = []     # K7-patterns: (description, `wcspecp` line, plain WcMatch results in the spec format)
    phist: dict = {}
    pseen = set()
    wild_n = WILD_PER_TREE_QUICK if (ck.tier == 'quick' and not ck.deep()) else WILD_PER_TREE
    wild_done = set()
    hist: dict = {}
    seen = set()
    for case in each_case():
        key = (case.tree_s, case.flags, case.fpat.text(case.minus), case.xpat.text(case.minus))
        seen.add(key)
        for nm in K.flag_names(WM, case.flags):
            hist[nm] = hist.get(nm, 0) + 1
        # ---- K7: recording subclass vs model
        sc = case.new_script(oracle=K.oracle_fn('0'))
        try:
            real = case.real_run(sc)
        except common.CallTimeout:
            hist['timeout'] = hist.get('timeout', 0) + 1
            continue
        except Exception as e:  # noqa: BLE001
            real = f'EXC {type(e).__name__}: {e}'
        stream_rows.append((case.describe(), case.model_line(sc, '0'), real))
        # ---- K7-patterns: the same case, the patterns compiled INSIDE the model
        pat_rows.append((case.describe(), case.model_line_p(sc, '0'), real))
        pseen.add(key)
        if case.root not in wild_done:
            # … and pattern-only cases on the same tree (no oracle: wilder patterns, bytes root, limit=)
            wild_done.add(case.root)
            for wc in wild_cases(case.root, K.is_cyclic(case.root), wild_n, fixed=case.root in fixed_roots):
                wsc = wc.new_script(oracle=K.oracle_fn('0'))
                try:
                    wreal = wc.real_run_p(wsc)
                except common.CallTimeout:
                    phist['timeout'] = phist.get('timeout', 0) + 1
                    continue
                except Exception as e:  # noqa: BLE001
                    wreal = f'EXC {type(e).__name__}: {e}'
                pat_rows.append((wc.describe(), wc.model_line_p(wsc, '0'), wreal))
                pseen.add((wc.tree_s, wc.flags, wc.fpat.text(False), wc.xpat.text(False), wc.isb, wc.limit))
                for nm in K.flag_names(WM, wc.flags):
                    phist[nm] = phist.get(nm, 0) + 1
                for tag, cond in (('bytes-root', wc.isb), ('limit-given', wc.limit is not None), ('error-reply', wreal.startswith('err ')),
                                  ('empty-file-pattern', not wc.fpat.alts), ('empty-exclude-pattern', not wc.xpat.alts),
                                  ('alternatives', '|' in wc.fpat.text(False) + wc.xpat.text(False)),
                                  ('anchored-alternative', any(a.lstrip('!-').startswith('/') for a in
                                                               (wc.fpat.text(False) + '|' + wc.xpat.text(False)).split('|'))),
                                  ('some-yield', ' Ym' in wreal)):
                    if cond:
                        phist[tag] = phist.get(tag, 0) + 1
        # ---- search: plain WcMatch vs the specification
        fpt, xpt = case.fpat.text(case.minus), case.xpat.text(case.minus)
        try:
            with common.time_limit(20):
                w = WM.WcMatch(case.root, fpt, xpt, case.flags)
                got = w.match()
                skipped = w.get_skipped()
                rerun = None
                if len(search_rows) % 3 == 0:
                    # the same object used again: match, imatch, match — results and the counter are per run (added after seeded
                    # change C14e: match() bypassed the reset of the skipped counter)
                    runs = []
                    for how in ('match', 'imatch', 'match'):
                        r_ = w.match() if how == 'match' else list(w.imatch())
                        runs.append((how, r_ == got, w.get_skipped()))
                    bad = [(how, same, sk) for how, same, sk in runs if not same or sk != skipped]
                    rerun = bad[0] if bad else None
                got_i = list(WM.WcMatch(case.root, fpt, xpt, case.flags).imatch())
        except common.CallTimeout:
            continue
        pre = case.root.rstrip('/') + '/'
        got_rel = [g[len(pre):] if g.startswith(pre) else '??' + g for g in got]
        dec = case.dec
        fpn, dpn = bool(case.flags & WM.FILEPATHNAME), bool(case.flags & WM.DIRPATHNAME)
        fsel = (lambda rel, n: True) if not case.fpat.alts else (lambda rel, n: dec.file(case.fpat, fpn, rel, n))
        dex = (lambda rel, n: False) if not case.xpat.alts else (lambda rel, n: dec.excl(case.xpat, dpn, rel, n))
        exp, visited = K.spec_walk(case.root, WM, case.flags, fsel, dex)
        search_rows.append((case.describe(), case.spec_line(), got_rel, skipped, got_i == got, exp, visited, rerun))
        pat_spec_rows.append((case.describe(), case.spec_line_p(),
                              ' '.join([common.enc(p) for p in got_rel] + [f'K{skipped}', f'N{len(got_rel) + skipped}'])))
        if len(got_rel) > 0:
            hist['nonempty-result'] = hist.get('nonempty-result', 0) + 1
        if skipped > 0:
            hist['some-skipped'] = hist.get('some-skipped', 0) + 1
        if any(k in case.tree_s for k in ('L',)):
            hist['tree-with-dir-link'] = hist.get('tree-with-dir-link', 0) + 1

    def s_k7(sr):
        sr.note = ('K7: recording subclass of WcMatch (is_aborted / on_* overridden) vs Lean `run` on generated real '
                   'trees (abstraction from os.scandir/is_symlink/is_dir) × flag subsets × file/exclude patterns with '
                   '| and !/- negations; decisions from fnmatch.fnmatch / glob.globmatch; compared: complete event '
                   'sequence (polls, hook calls with paths, yields) and get_skipped()')
        replies = drv.ask_many([m for _d, m, _r in stream_rows])
        for (desc, mline, real), model in zip(stream_rows, replies):
            sr.evaluations += 1
            if real != model:
                sr.disagree({'case': desc, 'real': real, 'model': model, 'model_line': mline})
        sr.distinct = len(seen)
        sr.histogram = dict(hist)
        sr.samples = [d for d, _m, _r in stream_rows[:3]]
    ck.stream('K7-wcwalk-uninterrupted', s_k7)

    def s_k7p(sr):
        sr.note = ('K7-patterns: the recording subclass of WcMatch vs Lean `run` with `Cfg.ofPatterns` (Model/WcCompile.lean: '
                   '_parse_flags, _compile_wildcard, _compile, compile_pattern, WcRegexp.match, the arguments of compare_file / '
                   'compare_directory) — the two pattern STRINGS go to the model (`wcwalkp`), no decision table, no oracle.  (a) every '
                   'case of K7-wcwalk-uninterrupted again; (b) pattern-only cases: |-alternatives with !/-// prefixes in any '
                   'combination, braces (expansion supplied from bracex), RAWCHARS spellings, flag bits outside FLAG_MASK, bytes '
                   'root + bytes patterns, limit= (PatternLimitException / SyntaxError / KeyError as `err <kind>`); compared: the '
                   'complete event sequence and get_skipped().  (c) `wcspecp`: plain WcMatch(...).match() / get_skipped() vs '
                   'the Lean specification `specResults` / `specSkipped` of the compiled configuration')
        replies = drv.ask_many([m for _d, m, _r in pat_rows])
        for (desc, mline, real), model in zip(pat_rows, replies):
            sr.evaluations += 1
            if real != model:
                sr.disagree({'case': desc, 'real': real, 'model': model, 'model_line': mline})
        replies = drv.ask_many([m for _d, m, _r in pat_spec_rows])
        for (desc, mline, real), model in zip(pat_spec_rows, replies):
            sr.evaluations += 1
            if real != model:
                sr.disagree({'case': desc, 'real(match)': real, 'model(spec)': model, 'model_line': mline})
        sr.distinct = len(pseen)
        sr.histogram = dict(phist)
        sr.samples = [d for d, _m, _r in pat_rows[:2]] + [d for d, _m, r in pat_rows if d.get('bytes')][:1]
    ck.stream('K7-patterns', s_k7p)

    def s_spec(sr):
        sr.note = ('WcMatch(...).match() / imatch() / get_skipped() (unmodified class) vs the filtered walk computed '
                   '(a) in Python from os.scandir + fnmatch/globmatch decisions and (b) by the Lean specification '
                   '`specResults`/`specSkipped`; results compared as exact sequences')
        lean = drv.ask_many([sl for _d, sl, *_ in search_rows]) if drv is not None else [None] * len(search_rows)
        for (desc, _sl, got_rel, skipped, same_i, exp, visited, rerun), lspec in zip(search_rows, lean):
            sr.evaluations += 1
            problems = []
            if got_rel != exp:
                problems.append('result list differs from the filtered walk')
            if skipped != visited - len(got_rel):
                problems.append(f'get_skipped()={skipped} but visited-returned={visited - len(got_rel)}')
            if not same_i:
                problems.append('imatch() differs from match()')
            if rerun is not None:
                problems.append(f'the same object run again ({rerun[0]}): same results={rerun[1]}, get_skipped()={rerun[2]} '
                                f'(first run {skipped})')
            if len(set(got_rel)) != len(got_rel):
                problems.append('a file was returned twice')
            if lspec is not None:
                want = ' '.join([common.enc(p) for p in exp] + [f'K{visited - len(exp)}', f'N{visited}'])
                if lspec != want:
                    # the two formulations of the SPEC disagree: a harness/spec problem, not a verdict
                    ck.broken_ties.append('python spec vs lean spec differ: ' + json.dumps(desc)[:300])
            if problems:
                ck.report(Failing('; '.join(problems), desc, {'results': exp, 'skipped': visited - len(exp)},
                                  {'results': got_rel, 'skipped': skipped}, 'wcmatch/wcmatch.py:_walk'))
                sr.histogram['failing'] = sr.histogram.get('failing', 0) + 1
        sr.distinct = len(seen)
        sr.samples = [d for d, *_ in search_rows[:2]]
    ck.search('spec-filtered-walk', s_spec)

    def s_interleave(sr):
        # two walks of ONE object interleaved: an imatch() iterator advanced k values, then a complete match() of the same object, then the
        # rest of the iterator — both sequences are the object's uninterrupted result (added after seeded change C14j: the root-relative
        # folder prefix was kept on the object, so the resumed walk tested its files against the other walk's last folder)
        import shutil
        import tempfile
        tmp = tempfile.mkdtemp(prefix='c14i-', dir='/tmp')
        sr.note = ('one WcMatch object, tree a/ b/ c/ d/e/ with *.txt *.log *.md in each: patterns that depend on the directory part under FILEPATHNAME '
                   '(± DIRPATHNAME with an exclusion, ± base-name mode), every split point k: list(islice(it, k)) + match() + list(it)')
        try:
            for d in ('a', 'b', 'c', 'd/e'):
                os.makedirs(os.path.join(tmp, d))
                for f in ('0.txt', '1.log', '2.md', '3.txt'):
                    open(os.path.join(tmp, d, f), 'w').close()
            open(os.path.join(tmp, 'top.txt'), 'w').close()
            import itertools
            cases = [('a/*.txt|b/*.log|c/*.md', None, WM.RECURSIVE | WM.FILEPATHNAME), ('*/[01].*', 'c', WM.RECURSIVE | WM.FILEPATHNAME | WM.DIRPATHNAME),
                     ('**/3.txt|a/*', 'd/e', WM.RECURSIVE | WM.PATHNAME | WM.GLOBSTAR), ('*.txt', 'b', WM.RECURSIVE), ('d/e/*|top.*', None, WM.RECURSIVE | WM.FILEPATHNAME),
                     ('*.log', None, WM.RECURSIVE | WM.FILEPATHNAME | WM.MATCHBASE)]
            for fp, xp, fl in cases:
                obj = WM.WcMatch(tmp, fp, xp, fl)
                full = obj.match()
                sk_full = obj.get_skipped()
                for k in range(0, len(full) + 1):
                    sr.evaluations += 1
                    it = obj.imatch()
                    head = list(itertools.islice(it, k))
                    other = obj.match()
                    rest = list(it)
                    if head + rest != full or other != full:
                        rel = lambda xs: [os.path.relpath(x, tmp) for x in xs]      # noqa: E731
                        ck.report(Failing(f'interleaved walks of one object: imatch() advanced {k} values, match(), rest of the iterator — '
                                          f'{"the resumed iterator" if head + rest != full else "the inner match()"} differs from the uninterrupted result',
                                          {'api': 'wcmatch.WcMatch', 'file_pattern': fp, 'exclude_pattern': xp, 'flags': fl, 'split_at': k,
                                           'tree': 'a/ b/ c/ d/e/ x {0.txt, 1.log, 2.md, 3.txt}, top.txt'}, rel(full), {'iterator': rel(head + rest), 'match': rel(other)}), None)
                        sr.histogram['FAIL'] = sr.histogram.get('FAIL', 0) + 1
                        break
                    sr.histogram['holds'] = sr.histogram.get('holds', 0) + 1
                if obj.match() != full or obj.get_skipped() != sk_full:
                    ck.report(Failing('a run after interleaved runs differs from the first run', {'api': 'wcmatch.WcMatch', 'file_pattern': fp, 'flags': fl}, None, None), None)
            sr.distinct = len(cases)
        finally:
            shutil.rmtree(tmp, ignore_errors=True)
    ck.search('interleaved-walks-of-one-object', s_interleave)

    if drv:
        drv.close()
    return ck.finish(assumptions=[
        'os.walk / os.scandir are trusted; the tree abstraction is read from the OS after the tree was built',
        'pattern decisions are parameters of the walk model; they are supplied from fnmatch.fnmatch / glob.globmatch '
        '(per-alternative combination only for patterns with a leading-/ anchor)',
        'util.is_hidden on this host = leading dot',
        'K7-patterns: bracex.iexpand (under BRACE) and unicodedata.lookup (under RAWCHARS) are parameters of the model; their '
        'values are supplied from the real functions; the host is POSIX (os.sep = "/", no _FORCEWIN)',
    ])


def replay(path: str) -> int:
    """re-create the tree of a failing input from its abstraction and compare WcMatch with the filtered walk"""
    import ast
    import tempfile
    import shutil
    common.import_wcmatch()
    from wcmatch import wcmatch as WM
    data = json.load(open(path))
    for f in data.get('failing', []):
        i = f['input']
        tmp = tempfile.mkdtemp(prefix='c14r-', dir='/tmp')
        try:
            root = os.path.join(tmp, 'root')
            os.mkdir(root)
            K.build_from_abstract(root, ast.literal_eval(i['tree_readable']), os.path.join(tmp, 'outside'))
            with common.time_limit(20):
                w = WM.WcMatch(root, i['file_pattern'], i['exclude_pattern'], i['flags'])
                got = [g[len(root) + 1:] for g in w.match()]
            print('flags', i['flag_names'], 'file', repr(i['file_pattern']), 'exclude', repr(i['exclude_pattern']))
            print(' expected', f['expected'])
            print(' observed', {'results': got, 'skipped': w.get_skipped()}, '(recorded:', f['observed'], ')')
            print(' (scandir order of a re-created tree may differ from the recorded one; compare as sets if so)')
        finally:
            shutil.rmtree(tmp, ignore_errors=True)
    if not data.get('failing'):
        print('broken ties:', json.dumps(data.get('broken_ties'), indent=1)[:3000])
    return 0

"""C13 — multi-pattern glob is the de-duplicated union minus exclusions.

Proof part : Properties/C13.lean — NOUNIQUE = concatenation; no key twice otherwise; union ⊆ and
             ⊇ (up to the key in force, exactly when the key is the path); exclusions = the walk's
             candidates no exclusion regex full-matches on path(+sep for directories); exclusion
             regexes have DOTMATCH forced for every flag word; witnesses incl. KF-G1.
Tie        : K5 on lists of 1-4 patterns (overlapping, identical, case variants, BRACE/SPLIT
             generated) with 0-2 exclusions (exclude= and inline NEGATE), NOUNIQUE, IGNORECASE/CASE,
             NEGATEALL, NODIR, SCANDOTDIR, pathlib mode: exact event sequences.
Search     : real API only — glob(list) against the per-pattern globs: keys of the result = keys
             of the union, no key twice; NOUNIQUE = concatenation; exclude= against an independent
             globmatch of path(+sep) with DOTGLOB; inline `!p` against exclude=[p].
"""
from __future__ import annotations
import os
import warnings

import common
import k5_glob as K
from framework import Check, Failing

warnings.simplefilter('ignore')
TARGETS = ['WcModel.Properties.C13']

BASE = ['*', 'a*', 'A*', '*b', '*.b', '[ab]', '?', '.*', '*/*', 'a/*', '**', '**/a', '**/*', 'a', 'A', 'b', 'ab',
        '*/', '**/', 'a/**', '**/a/**', '.h', '.h/*', '*/../*', './*', '[aA]', 'a.b', '*/a', '?/?']
EXCL = ['a', 'a*', '*b', '*/', '**/a', '.h', '*/*', 'A', '[ab]', '**/*.b', '.*', 'a/', '*']


def _variants(R, p: str) -> str:
    r = R.random()
    if r < 0.15:
        return p.upper() if R.random() < 0.5 else p.lower()
    return p


def _cases(R, G, t, n):
    out = []
    for j in range(n):
        if j % 6 == 5:
            # a designed pair: one directory listed twice with different filters / one literal start as a directory and as anything
            pp = K.gen_pair(R, G, t)
            fl = (G.GLOBSTAR if R.random() < 0.8 else 0) | (G.MARK if R.random() < 0.2 else 0) | (G.NOUNIQUE if R.random() < 0.2 else 0)
            if R.random() < 0.3:
                if R.random() < 0.5:
                    pp, fl = '|'.join(pp), fl | G.SPLIT
                else:
                    pp, fl = '{' + ','.join(pp) + '}', fl | G.BRACE
            out.append(K.Case(pp, fl, None, R.choice(['root_dir', 'root_dir', 'cwd', 'dir_fd'])))
            continue
        k = R.randint(1, 4)
        pats = [_variants(R, R.choice(BASE)) for _ in range(k)]
        if R.random() < 0.25 and k > 1:
            pats[R.randrange(k)] = pats[0]                       # identical
        if R.random() < 0.15 and t.names:
            pats[R.randrange(k)] = G.escape(R.choice(sorted(t.names)))
        fl = G.GLOBSTAR if R.random() < 0.8 else 0
        for nm, pr in (('NOUNIQUE', 0.3), ('IGNORECASE', 0.3), ('CASE', 0.05), ('NODIR', 0.15), ('SCANDOTDIR', 0.25),
                       ('DOTGLOB', 0.25), ('MARK', 0.2), ('EXTGLOB', 0.3), ('MATCHBASE', 0.1), ('NODOTDIR', 0.1),
                       ('GLOBSTARLONG', 0.1)):
            if R.random() < pr:
                fl |= getattr(G, nm)
        if R.random() < 0.08:
            fl |= 0x8000000                                       # _PATHLIB
        excl = None
        r = R.random()
        if r < 0.3:
            excl = [R.choice(EXCL) for _ in range(R.randint(1, 2))]
        elif r < 0.5:
            fl |= G.NEGATE
            if R.random() < 0.3:
                fl |= G.MINUSNEGATE
            sym = '-' if fl & G.MINUSNEGATE else '!'
            for _ in range(R.randint(1, 2)):
                pats.insert(R.randint(0, len(pats)), sym + R.choice(EXCL))
            if R.random() < 0.3:
                fl |= G.NEGATEALL
                if R.random() < 0.5:
                    pats = [p for p in pats if p.startswith(sym)]
        if R.random() < 0.15:
            fl |= G.BRACE
            pats[0] = '{' + ','.join(R.choice(['a*', '*b', 'a', '*', 'A*', '**/a']) for _ in range(R.randint(2, 3))) + '}'
        if R.random() < 0.15:
            fl |= G.SPLIT
            pats[-1] = '|'.join(R.choice(['a*', '*b', 'a', '*', '?', '.h/*']) for _ in range(R.randint(2, 3)))
        if R.random() < 0.15 and not (fl & G.NEGATE):
            # an ABSOLUTE pattern in front of relative ones (state kept per pattern must be reset: seeded change C13c)
            pats.insert(R.choice([0, 0, len(pats)]), t.root + '/' + _variants(R, R.choice(BASE)))
        if t.cyclic:
            fl &= ~G.FOLLOW
        pp = pats if len(pats) > 1 or R.random() < 0.5 else pats[0]
        out.append(K.Case(pp, fl, excl, R.choice(['root_dir', 'root_dir', 'cwd', 'bytes', 'dir_fd'])))
    return out


def run(ck: Check) -> int:
    common.import_wcmatch()
    from wcmatch import glob as G, _wcparse as W, util as U
    ck.build()
    ck.audit()
    R = common.rng('C13')
    drv = common.Driver() if ck.driver_ok else None
    quick = ck.tier == 'quick'
    ntrees, per = (300, 12) if quick else (10000, 16)
    found: list = []
    stats = {'union': 0, 'nounique_concat': 0, 'exclude_independent': 0, 'inline_vs_exclude': 0, 'dups_checked': 0,
             'KF-G1 seen': 0, 'KF-D23 seen': 0}

    def key(G_, fl):
        ci = bool(fl & G.IGNORECASE) and not fl & G.CASE
        return (lambda s: s.lower()) if ci else (lambda s: s)

    def on_case(t, c, st, ev, ms, mev):
        # pathlib: "never makes one file appear twice" for a list whose patterns reach one entry with and without a trailing separator
        # (added after seeded change C13h: a fast path of `_pathlib_norm` returned before stripping the trailing separator, so the keys
        # of `pkg` and `pkg/` differed while both become the same Path)
        if st == 'ok' and c.mode == 'root_dir' and not c.flags & (G.NOUNIQUE | 0x8000000) and not isinstance(c.pats, str) and len(c.pats) > 1 \
                and not any(q.startswith('/') for q in c.pats) and not t.cyclic:
            from wcmatch import pathlib as WP
            pfl = c.flags & (G.GLOBSTAR | G.MARK | G.DOTGLOB | G.EXTGLOB | G.NEGATE | G.MINUSNEGATE | G.NEGATEALL | G.BRACE | G.SPLIT | G.IGNORECASE
                             | G.CASE | G.NODIR | G.MATCHBASE | G.GLOBSTARLONG | G.SCANDOTDIR | G.NODOTDIR)
            try:
                with common.time_limit(10):
                    kw0 = {} if c.exclude is None else {'exclude': c.exclude}
                    pl = list(WP.Path(t.root).glob(list(c.pats), flags=pfl, **kw0))
                stats['pathlib_lists'] = stats.get('pathlib_lists', 0) + 1
                if len(set(pl)) != len(pl) and not (pfl & G.IGNORECASE and not pfl & G.CASE):
                    dup = next(str(x) for x in pl if pl.count(x) > 1)
                    found.append(Failing(f'Path.glob returned {os.path.relpath(dup, t.root)!r} twice without NOUNIQUE',
                                         {**c.to_json(G, t), 'api': 'pathlib.Path.glob'}, 'each path once', [os.path.relpath(str(x), t.root) for x in pl][:12],
                                         'wcmatch/glob.py:Glob._pathlib_norm / _is_unique'))
            except (common.CallTimeout, ValueError):
                pass
        if st != 'ok' or c.mode == 'bytes' or c.flags & 0x8000000:
            return
        res = [p for k, p in ev if k == 'y']
        fl = c.flags
        kf = key(G, fl)
        pats = [c.pats] if isinstance(c.pats, str) else list(c.pats)
        if not pats:
            return
        g = G.Glob(pats, flags=fl, exclude=c.exclude)
        if not hasattr(g, 'flags'):
            return
        exp = [x for p in pats for x in W.expand(U.norm_pattern(p, False, g.raw_chars), g.flags, 0)]
        # re-expansion must be the identity for the per-pattern runs to mean the same
        if any(ch in x for x in exp for ch in '{}|') and fl & (G.BRACE | G.SPLIT):
            return
        pos = [x for x in exp if not W.is_negative(x, g.flags)]
        neg = [x[1:] for x in exp if W.is_negative(x, g.flags)]
        if c.exclude is not None:
            neg = list(c.exclude)
        nounique = bool(fl & G.NOUNIQUE) or g.nounique
        base = fl & ~(G.NEGATE | G.NEGATEALL | G.MINUSNEGATE)
        if not pos:
            if neg and fl & G.NEGATEALL and c.exclude is None and fl & G.GLOBSTAR:
                # the implicit `**` is compiled with GLOBSTAR forced, the exclusions are not: the
                # per-pattern formulation is the same call only when GLOBSTAR is set anyway
                pos = ['**']
            else:
                return
        kw = {'root_dir': t.root}
        ex = neg if neg else None
        try:
            singles = [G.glob(p, flags=base | G.NOUNIQUE, exclude=ex, **kw) for p in pos]
        except Exception:  # noqa: BLE001
            return
        # ---- duplicates
        stats['dups_checked'] += 1
        if not (fl & G.NOUNIQUE):
            ks = [kf(x) for x in res]
            if len(set(ks)) != len(ks):
                dup = next(x for x in res if [kf(y) for y in res].count(kf(x)) > 1)
                kid = None
                shortcut = g.nounique and len(g.pattern) <= 1 and bool(fl & G.SCANDOTDIR)
                if shortcut and len(set(res)) != len(res):
                    # the very same spelling twice: two expansions of `**` reach one path
                    kid = 'KF-G1'
                    stats['KF-G1 seen'] += 1
                elif shortcut and fl & G.IGNORECASE and not fl & G.CASE:
                    # different spellings with one case-folded key: they must be different real
                    # entries (different names in the same directory), not one entry twice
                    same_key = [x for x in res if kf(x) == kf(dup)]
                    if len(set(same_key)) == len(same_key) and \
                            all(os.path.lexists(os.path.join(t.root, x.rstrip('/') or x)) for x in same_key):    # (`f/` for a regular file f is KF-D17's spelling of the entry f)
                        kid = 'KF-D23'
                        stats['KF-D23 seen'] = stats.get('KF-D23 seen', 0) + 1
                f = Failing(f'{dup!r} returned twice without NOUNIQUE', c.to_json(G, t), 'no key twice', res[:12],
                            'wcmatch/glob.py:539-546')
                ck.report(f, kid) if kid else found.append(f)
                return
        # ---- union / concatenation
        if fl & G.NOUNIQUE:
            stats['nounique_concat'] += 1
            want = [x for s in singles for x in s]
            if res != want:
                found.append(Failing('NOUNIQUE result is not the concatenation of the per-pattern results',
                                     c.to_json(G, t), want[:12], res[:12], 'wcmatch/glob.py:788-812'))
        elif not g.nounique:
            stats['union'] += 1
            want = {kf(x) for s in singles for x in s}
            got = {kf(x) for x in res}
            if want != got:
                found.append(Failing('result keys differ from the union of the per-pattern results',
                                     c.to_json(G, t), sorted(want)[:12], sorted(got)[:12], 'wcmatch/glob.py:788-812'))
            # first occurrences, in order
            order = []
            seen = set()
            for s in singles:
                for x in s:
                    if kf(x) not in seen:
                        seen.add(kf(x))
                        order.append(x)
            if order != res:
                found.append(Failing('result is not the first-occurrence order of the concatenation',
                                     c.to_json(G, t), order[:12], res[:12], 'wcmatch/glob.py:788-812'))
        # ---- exclusions, independently of glob's own exclusion code
        if neg and not fl & G.NODIR:
            stats['exclude_independent'] += 1
            try:
                plain = G.glob(pos, flags=base | G.NOUNIQUE, **kw)
            except Exception:  # noqa: BLE001
                return
            mfl = (base | G.DOTGLOB) & ~(G.NODIR | G.MARK | G.SCANDOTDIR | G.NOUNIQUE | G.FOLLOW | G.REALPATH)

            def excluded(x: str) -> bool:
                isdir = x.endswith('/') or os.path.isdir(os.path.join(t.root, x))
                subj = x if (x.endswith('/') or not isdir) else x + '/'
                if x.startswith('/'):
                    # glob tests its exclusions under REALPATH (it forces the flag), where a relative pattern never matches an
                    # absolute path (C04's clause); the oracle must not demand more for absolute results
                    return any(G.globmatch(subj, e, flags=mfl | G.REALPATH, root_dir=t.root) for e in neg)
                return any(G.globmatch(subj, e, flags=mfl) for e in neg)
            want = [x for x in plain if not excluded(x)]
            if not nounique:
                # exclusion comes before the seen set (an excluded path does not occupy its key)
                first, sk = [], set()
                for x in want:
                    if kf(x) not in sk:
                        sk.add(kf(x))
                        first.append(x)
                want = first
            mine = G.glob(pos, flags=base | (G.NOUNIQUE if nounique else 0), exclude=neg, **kw)
            if want != mine:
                found.append(Failing('exclude= differs from filtering with globmatch(path+sep, DOTGLOB)',
                                     {**c.to_json(G, t), 'positive': pos, 'negative': neg}, want[:12], mine[:12],
                                     'wcmatch/glob.py:563-580'))
        # ---- inline ! against exclude=
        if c.exclude is None and neg and fl & G.NEGATE and pos != ['**']:
            stats['inline_vs_exclude'] += 1
            alt = G.glob(pos, flags=base | (fl & G.NOUNIQUE), exclude=neg, **kw)
            if {kf(x) for x in alt} != {kf(x) for x in res}:
                found.append(Failing('inline negative patterns differ from exclude=', c.to_json(G, t), alt[:12], res[:12],
                                     'wcmatch/glob.py:517-536'))

    def s_k5(sr):
        sr.note = ('K5: iglob event sequence vs the Lean walker on pattern lists (overlapping / identical / case variants / '
                   'BRACE / SPLIT) with exclude= and inline negatives, NOUNIQUE, IGNORECASE, NEGATEALL, NODIR, SCANDOTDIR, '
                   '_PATHLIB; the expansions are supplied to the model from the real _wcparse.expand')
        K.k5_loop(sr, drv, G, W, U, R, ntrees, lambda R_, t: _cases(R_, G, t, per), on_case)
    ck.stream('K5-glob-lists', s_k5)

    def s_search(sr):
        sr.note = 'glob(list) vs per-pattern globs / independent exclusion filter, real API only'
        sr.histogram = dict(stats)
        sr.evaluations = stats['dups_checked']
        sr.distinct = stats['union'] + stats['nounique_concat']
        for f in found:
            ck.report(f, None)
    ck.search('union-dedup-exclude', s_search)
    if drv:
        drv.close()
    return ck.finish(assumptions=['brace / split / tilde expansion is the real _wcparse.expand (C07 owns it)',
                                  'case folding is ASCII (names and patterns are ASCII in the generators)'])


def replay(path: str) -> int:
    import json
    common.import_wcmatch()
    from wcmatch import glob as G
    data = json.load(open(path))
    for f in data.get('failing', []):
        i = f['input']
        t = K.make_tree(common.rng('replay'), [tuple(x) for x in i['tree']])
        try:
            st, ev = K.run_real(G, t, i['pattern'], i['flags_int'], i.get('exclude'), i.get('root', 'root_dir'))
            print('replayed:', st, [p for k, p in ev if k == 'y'][:40])
        finally:
            t.remove()
    return 0

"""C03 — hidden names and the special directories are never matched by wildcards.

Proof  : Properties/C03.lean — (fnmatch mode, tidy compiler of C01) a name that begins with `.`
         is matched only if the pattern's first token is a written `.` (upper bound), and is
         matched when it is (lower bound), minus the recorded defects; semantics of the
         segment-start guards and of the two globstar fragments (they never consume a dot that
         follows a separator or the start).
Tie    : K1 / K2 under the dot-related flags.
Search : sandwich  Must ⊆ code ⊆ May  of the executable path specification on paths with hidden
         pieces and `.` / `..`, fnmatch and glob mode, DOTGLOB on/off, NODOTDIR, MATCHBASE;
         exclusion patterns behave as if DOTGLOB were set; emptiness for dot-free patterns.
"""
from __future__ import annotations
import os
import warnings

import common
import gen
import pathcheck as P
import streams
from framework import Check, Failing

warnings.simplefilter('ignore')
TARGETS = ['WcModel.Properties.C03']


def run(ck: Check) -> int:
    common.import_wcmatch()
    from wcmatch import glob as G, fnmatch as F, _wcparse as W
    ck.build()
    ck.audit()
    R = common.rng('C03')
    quick = ck.tier == 'quick'
    drv = common.Driver() if ck.driver_ok else None
    pats = [P.gen_path(R) for _ in range(3000 if quick else 50000)]
    paths = P.path_set(True, 7)

    def s_k1(sr):
        base = W.FORCEUNIX
        cases = []
        for p in pats:
            fl = gen.random_flags(R, [W.PATHNAME, W.PATHNAME, W.GLOBSTAR, W.MATCHBASE, W.DOTMATCH, W.EXTMATCH, W.EXTMATCH,
                                      W.NODOTDIR, W.NODOTDIR, W._EXTMATCHBASE, W.NEGATE], 0.4, base)
            cases.append((p, streams.reachable(fl), False))
        for fl in (base | W.EXTMATCH, base | W.PATHNAME | W.EXTMATCH | W.GLOBSTAR, base | W.PATHNAME | W.NODOTDIR | W.DOTMATCH | W.EXTMATCH):
            for p in gen.exhaustive('a.*?/(|!)', 4 if quick else 5):
                cases.append((p, fl, False))
        seqs = list(gen.token_sequences(3 if quick else 4))
        for fl in (base | W.PATHNAME | W.EXTMATCH | W.DOTMATCH | W.GLOBSTAR, base | W.PATHNAME | W.EXTMATCH | W.GLOBSTAR,
                   base | W.PATHNAME | W.EXTMATCH | W.DOTMATCH | W.NODOTDIR, base | W.EXTMATCH, base | W.EXTMATCH | W.DOTMATCH,
                   base | W.PATHNAME | W.EXTMATCH | W.MATCHBASE | W.GLOBSTAR | W.REALPATH):
            for p in seqs:
                cases.append((p, fl, False))
        streams.k1(sr, drv, cases)
        sr.note = ('K1 regex text under {PATHNAME,GLOBSTAR,MATCHBASE,_EXTMATCHBASE,DOTMATCH,EXTMATCH,NODOTDIR}, dot-heavy alphabet; '
                   'every sequence of <= 3 (thorough 4) parser-state tokens (groups with dotted alternatives, !(...), separators, stars) under 6 flag sets')
    ck.stream('K1-parse-text', s_k1)

    def s_k2(sr):
        base = W.FORCEUNIX
        cases = [(p, streams.reachable(gen.random_flags(R, [W.PATHNAME, W.PATHNAME, W.GLOBSTAR, W.MATCHBASE, W.DOTMATCH, W.EXTMATCH, W.NODOTDIR], 0.4, base)), False)
                 for p in pats[: (500 if quick else 6000)]]
        streams.k2(sr, drv, cases, paths)
        sr.note = 'K2 on paths with hidden pieces and ./..'
    ck.stream('K2-regex-semantics', s_k2)

    def attribute(info, fl, n, mb):
        if mb and info.first_glob:
            return 'KF-D6'
        if info.d4:
            return 'KF-D4'
        if info.d5:
            return 'KF-D5'
        if info.d15 and (fl & G.D):
            return 'KF-D15'
        return None

    def s_search(sr):
        deep = ck.deep()
        ps = pats if (deep or not quick) else pats[:3000]
        if deep and quick:
            ps = ps + [P.gen_path(R) for _ in range(12000)]
        cases = [(p, gen.random_flags(R, [G.G, G.G, G.X, G.D, G.E, G.E, G.I], 0.4, G.U)) for p in ps]
        may = P.pspec(drv, G, cases, paths, 1) if drv else []
        must = P.pspec(drv, G, cases, paths, 2) if drv else []
        n_hidden = 0
        hidden_idx = [j for j, n in enumerate(paths) if '\n' not in n and any(x.startswith('.') for x in n.split('/') if x)]
        for k, ((p, fl), o, o2) in enumerate(zip(cases, may, must)):
            f = o.split(' ')
            if f[0] != 'ok':
                sr.histogram[f[0]] = sr.histogram.get(f[0], 0) + 1
                continue
            info = P.Info(f)
            mustbits = o2.split(' ')[1]
            sr.distinct += 1
            try:
                with common.time_limit(5):
                    m = G.compile(p, flags=fl)
                    got = [m.match(n) for n in paths]
                    # exclusion patterns always behave as if DOTGLOB were set: include the path by
                    # its own escaped spelling (matches hidden pieces literally, DOTGLOB off) and
                    # exclude with `p`; compare with the DOTGLOB match of `p`
                    nod = fl & ~G.D
                    exd = G.compile(p, flags=fl | G.D)
                    # (on 48 of the hidden paths per pattern: each call compiles a fresh inclusion pattern, which dominated the run)
                    pick = set(hidden_idx if len(hidden_idx) <= 48 else R.sample(hidden_idx, 48))
                    excl = []
                    for j, n in enumerate(paths):
                        if j not in pick:
                            excl.append((False, False, False))
                            continue
                        inc = G.escape(n)
                        excl.append((G.globmatch(n, inc, flags=nod), G.globmatch(n, inc, flags=nod, exclude=p), exd.match(n)))
            except common.CallTimeout:
                sr.histogram['timeout'] = sr.histogram.get('timeout', 0) + 1
                continue
            for n, ma, mu, g, (all_, kept, dmatch) in zip(paths, info.bits, mustbits, got, excl):
                if '\n' in n:
                    continue
                pieces = [x for x in n.split('/') if x]
                hidden = any(x.startswith('.') for x in pieces)
                if not hidden:
                    continue
                n_hidden += 1
                sr.evaluations += 1
                mb = bool(fl & G.X)
                if g and ma == '0':
                    kid = attribute(info, fl, n, mb)
                    ck.report(Failing(f'globmatch accepts {n!r} for {p!r} although a wildcard would have to consume a leading dot / match a special directory',
                                      {'api': 'glob.globmatch', 'pattern': p, 'path': n, 'flags': fl}, False, True), kid)
                    sr.histogram[kid or 'unattributed-accept'] = sr.histogram.get(kid or 'unattributed-accept', 0) + 1
                if (not g) and mu == '1':
                    kid = 'KF-D1p' if not info.start_safe else None
                    ck.report(Failing(f'globmatch rejects {n!r} for {p!r} although every leading dot is consumed by a written dot',
                                      {'api': 'glob.globmatch', 'pattern': p, 'path': n, 'flags': fl}, True, False), kid)
                    sr.histogram[kid or 'unattributed-reject'] = sr.histogram.get(kid or 'unattributed-reject', 0) + 1
                # exclusion == DOTGLOB match of the same pattern
                if all_ and (kept == bool(dmatch)):
                    ck.report(Failing(f'exclusion pattern {p!r} does not behave as if DOTGLOB were set on {n!r}',
                                      {'api': 'glob.compile(exclude=)', 'pattern': p, 'path': n, 'flags': fl}, not dmatch, kept), None)
                    sr.histogram['exclusion-not-dotglob'] = sr.histogram.get('exclusion-not-dotglob', 0) + 1
            if len(sr.samples) < 3:
                sr.samples.append({'pattern': p, 'flags': hex(fl), 'hidden_paths_accepted': [n for n, g in zip(paths, got) if g and any(x.startswith('.') for x in n.split('/'))][:4]})
        sr.histogram['hidden-path-evaluations'] = n_hidden
        sr.note = ('sandwich Must ⊆ globmatch ⊆ May on every path with a hidden piece or ./.. (DOTGLOB on/off, MATCHBASE, '
                   'GLOBSTAR, EXTGLOB, IGNORECASE); exclusion (exclude=) compared with the DOTGLOB match of the same pattern')

    def s_fn(sr):
        names = [n for n in gen.names_upto('a.b', 3) if n.startswith('.')]
        cases = []
        for _ in range(2500 if quick and not ck.deep() else 30000):
            cases.append((P.gen_seg(R, True), F.U | F.E | (F.I if R.random() < 0.2 else 0)))
        encn = ' '.join(common.enc(n) for n in names)

        def ask(rule):
            return drv.ask_many([f'pspec {int(bool(fl & F.I))} 0 1 0 0 0 {rule} {common.enc(p)} {encn}' for p, fl in cases])
        may = ask(1) if drv else []
        must = ask(2) if drv else []
        for (p, fl), o, o2 in zip(cases, may, must):
            f = o.split(' ')
            if f[0] != 'ok' or '/' in p:
                continue
            info = P.Info(f)
            mustbits = o2.split(' ')[1]
            sr.distinct += 1
            m = F.compile(p, flags=fl)
            for n, ma, mu in zip(names, info.bits, mustbits):
                g = m.match(n)
                sr.evaluations += 1
                if g and ma == '0':
                    kid = 'KF-D5' if info.d5 else ('KF-D4' if info.d4 else None)
                    ck.report(Failing(f'fnmatch accepts hidden {n!r} for {p!r}', {'api': 'fnmatch', 'pattern': p, 'name': n, 'flags': fl}, False, True), kid)
                    sr.histogram[kid or 'unattributed-accept'] = sr.histogram.get(kid or 'unattributed-accept', 0) + 1
                if (not g) and mu == '1':
                    kid = 'KF-D1p' if not info.start_safe else None
                    ck.report(Failing(f'fnmatch rejects {n!r} for {p!r}', {'api': 'fnmatch', 'pattern': p, 'name': n, 'flags': fl}, True, False), kid)
                    sr.histogram[kid or 'unattributed-reject'] = sr.histogram.get(kid or 'unattributed-reject', 0) + 1
            if len(sr.samples) < 2:
                sr.samples.append({'pattern': p, 'flags': hex(fl)})
        sr.note = 'same sandwich in fnmatch mode (single segment) on every name <= 3 over "a.b" that begins with a dot'


    def s_win(sr):
        # THE SAME SANDWICH UNDER WINDOWS RULES (session 5; the content of C02win.C02_read_glob_win / C03win.C03_upper_path_win on the real
        # code): for a pattern without a backslash and without a drive-like beginning, FORCEWIN on a subject = the documented language
        # (with case folding) of the subject with every `\\` read as `/` — so the Must / May bits the Lean specification gives for the
        # pattern under IGNORECASE on the path n bound the real FORCEWIN answer on n with its separators rewritten (all of them, or only
        # the first).  Deviations are the recorded Unix ones (same attribution); nothing new is excused.
        import re as _re
        deep = ck.deep()
        ps = [p for p in (pats if (deep or not quick) else pats[:3000]) if '\\' not in p and not _re.match(r'(?s).:|//', p)]
        cases = [(p, gen.random_flags(R, [G.G, G.G, G.D, G.E, G.E], 0.4, G.U) | G.I) for p in ps]
        may = P.pspec(drv, G, cases, paths, 1) if drv else []
        must = P.pspec(drv, G, cases, paths, 2) if drv else []

        def swaps(n):
            out = [n.replace('/', '\\')]
            if n.count('/') > 1:
                i = n.index('/')
                out.append(n[:i] + '\\' + n[i + 1:])
            return out
        for (p, fl), o, o2 in zip(cases, may, must):
            f = o.split(' ')
            if f[0] != 'ok':
                sr.histogram[f[0]] = sr.histogram.get(f[0], 0) + 1
                continue
            info = P.Info(f)
            mustbits = o2.split(' ')[1]
            sr.distinct += 1
            wfl = (fl & ~G.U & ~G.I) | G.W
            try:
                with common.time_limit(5):
                    m = G.compile(p, flags=wfl)
                    rows = [(n, w, bool(m.match(w))) for n in paths if '\n' not in n for w in swaps(n)]
            except common.CallTimeout:
                sr.histogram['timeout'] = sr.histogram.get('timeout', 0) + 1
                continue
            bits = {n: (ma, mu) for n, ma, mu in zip(paths, info.bits, mustbits)}
            for n, w, g in rows:
                ma, mu = bits[n]
                sr.evaluations += 1
                if g and ma == '0':
                    kid = attribute(info, fl, n, False)
                    ck.report(Failing(f'FORCEWIN: globmatch accepts {w!r} for {p!r} although the documented language (case folded) refuses {n!r}',
                                      {'api': 'glob.globmatch', 'pattern': p, 'path': w, 'flags': wfl}, False, True), kid)
                    sr.histogram[kid or 'unattributed-accept'] = sr.histogram.get(kid or 'unattributed-accept', 0) + 1
                if (not g) and mu == '1':
                    kid = 'KF-D1p' if not info.start_safe else None
                    ck.report(Failing(f'FORCEWIN: globmatch rejects {w!r} for {p!r} although the documented language (case folded) grants {n!r}',
                                      {'api': 'glob.globmatch', 'pattern': p, 'path': w, 'flags': wfl}, True, False), kid)
                    sr.histogram[kid or 'unattributed-reject'] = sr.histogram.get(kid or 'unattributed-reject', 0) + 1
            if len(sr.samples) < 2:
                sr.samples.append({'pattern': p, 'flags': hex(wfl), 'accepted': [w for _, w, g in rows if g][:4]})
        sr.note = ('Windows rules: Must ⊆ globmatch(FORCEWIN) ⊆ May of the Lean specification under IGNORECASE, on every path with its separators '
                   'rewritten to backslashes (all / the first only); patterns without backslash and drive-like beginning (C02win / C03win on the real code)')

    # ---- "no pattern, however composed": EVERY dot-free string as a pattern (malformed ones
    # included — unclosed groups, stray `)` `|` `]`), hidden names must be rejected (added after
    # seeded change C03a: a failed extended-group parse did not restore the start state)
    def s_all(sr):
        alpha = 'a*?[]!()|+@\\/'
        pats_all = [p for p in gen.exhaustive(alpha, 4 if not ck.deep() else 5, 1)]
        if ck.deep() and len(pats_all) > 250000:
            pats_all = R.sample(pats_all, 250000)
        for _ in range(4000 if quick else 60000):
            q = gen.mutate(R, P.gen_path(R)).replace('.', 'a')
            pats_all.append(q)
        # malformed / collapsed bracket expressions at a segment start (added after seeded change C03f: a negated bracket whose ranges
        # are all reversed — "anything" — was emitted without the start-of-segment guards)
        for h, close in (('', ''), ('a/', ''), ('@(', ')'), ('*(x|', ')'), ('!(x)/', ''), ('**/', '')):
            for tk in ('[!z-a]', '[^9-0z-y]', '[!b-a]', '[z-a]', '[!a]', '[a-]', '[!]-a]', '[]-a]', '[!--+]', '[!z-ab]', '[^b-a-]', '[![:alpha:]z-a]'):
                for tail in ('', 'a', '*', '?', '[!z-a]', '(a', ')'):
                    pats_all.append(h + tk + tail + close)
        fn_names = ['.', '..', '.a', '.ab', '.(a', '.(ab', '.a)', '.|a', '.[a', '.a|a', '.!a', '.@(a', '.+(a)', '.a]', '.\\a']
        pth_names = fn_names + ['a/.a', '.a/a', 'a/.(a', 'a/.', 'a/..', './a', '../a', 'a/.a/a', 'a/.(ab', '.a/', 'a/.a)']
        fn_fl = F.E | F.U
        g_fl = G.E | G.U | G.G
        sr.note = (f'{len(pats_all)} dot-free strings as patterns (every string <= 4 over {alpha!r}, thorough 5, plus token-level mutations of '
                   'grammar patterns): fnmatch (EXTMATCH) / globmatch (EXTGLOB|GLOBSTAR) must reject every hidden name / path with a hidden '
                   'or ./.. piece; an accept is attributed to KF-D5 / KF-D4 only when the Lean port of the parser gives the same verdict '
                   'and its emitted items show that finding\'s signature (a successfully parsed extended group of any kind leading a segment; segment-initial star followed by a non-literal)')
        hits = []
        for p in pats_all:
            if '.' in p:
                continue
            sr.distinct += 1
            try:
                with common.time_limit(5):
                    m = F.compile(p, flags=fn_fl)
                    acc_fn = [n for n in fn_names if m.match(n)] if '/' not in p else []
                    mg = G.compile(p, flags=g_fl)
                    acc_g = [n for n in pth_names if mg.match(n)]
            except common.CallTimeout:
                continue
            except Exception:   # noqa: BLE001  (C10's business)
                continue
            sr.evaluations += len(fn_names) + len(pth_names)
            if acc_fn:
                hits.append(('fnmatch', p, fn_fl, acc_fn))
            if acc_g:
                hits.append(('globmatch', p, g_fl, acc_g))
        sr.histogram['patterns_accepting_a_hidden_name'] = len(hits)
        if hits and drv:
            fl_int = {'fnmatch': (W.EXTMATCH | W.FORCEUNIX), 'globmatch': (W.EXTMATCH | W.FORCEUNIX | W.PATHNAME | W.GLOBSTAR)}
            sig = drv.ask_many([f'segstarts {fl_int[api]} 0 {common.enc(p)}' for api, p, _fl, _a in hits])
            mod = drv.ask_many([f'match {fl_int[api]} 0 {common.enc(p)} ' + ' '.join(common.enc(n) for n in acc) for api, p, _fl, acc in hits])
            for (api, p, fl, acc), sg, mo in zip(hits, sig, mod):
                kid = None
                kinds = sg.split(' ')[1].split(',') if sg.startswith('ok ') else []
                model_same = mo.startswith('ok ') and set(mo.split(' ')[1]) == {'1'}
                if model_same:
                    # a successfully parsed group at a segment start; a negated group ALONE is fully guarded (C03_upper_faithful_sharp),
                    # it leaks only through the token that follows it
                    if any(k[:1] == 'G' or (k[:1] == 'I' and len(k) > 1 and k[1] != 'L') for k in kinds):
                        kid = 'KF-D5'
                    elif api == 'globmatch' and any(len(k) > 1 and k[0] == 'W' and k[1] != 'L' for k in kinds):
                        kid = 'KF-D4'
                sr.histogram[kid or 'unattributed-accept'] = sr.histogram.get(kid or 'unattributed-accept', 0) + 1
                ck.report(Failing(f'{api} accepts hidden {acc[0]!r} for the dot-free pattern {p!r}',
                                  {'api': 'fnmatch' if api == 'fnmatch' else 'globmatch', 'pattern': p, 'name': acc[0], 'path': acc[0], 'flags': fl,
                                   'item_kinds': kinds, 'model_verdict_same': model_same}, False, True,
                                  'wcmatch/_wcparse.py: start-of-segment state (after_start) handling'), kid)
    ck.search('dot-free-all-strings', s_all)

    # ---- `.` and `..` pieces under DOTGLOB: "even with DOTGLOB no wildcard construct matches a segment that is exactly `.` or `..`"
    # (added after seeded change C03c: `match_dot_dir` leaked from one top-level group into the next).  Oracle: a globstar-free
    # pattern consumes one piece per segment (theorem one_piece_per_segment), so piece i is matched by segment i; a segment with no
    # written dot at all must not match `.` / `..`.
    def s_dotdir(sr):
        segs = ['*', '?', '??', '[!x]', '[!x][!x]', '!(x)', '@(.a|b)', '@(a|.b)', '!(.x)', '+(?)', 'a', '.a', '*(a)b', '@(*)', '!(x|y)', '?(a)?', '.', '..',
                '@(.|a)', '!(a)b', '*a']
        pcs = ['a', 'b', '.', '..', '.a', 'ab']
        import itertools as _it
        hits = []
        n = 0
        for _ in range(700 if quick and not ck.deep() else 10000):
            k = R.randint(1, 3)
            ss = [R.choice(segs) for _ in range(k)]
            p = '/'.join(ss)
            fl = G.E | G.U | G.D | (G.G if R.random() < 0.5 else 0) | (G.I if R.random() < 0.1 else 0)
            cands = ['/'.join(t) for t in _it.product(pcs, repeat=k)]
            try:
                with common.time_limit(5):
                    acc = G.globfilter(cands, p, flags=fl)
            except common.CallTimeout:
                continue
            except Exception:   # noqa: BLE001
                continue
            n += 1
            sr.evaluations += len(cands)
            for q in acc:
                pieces = q.split('/')
                for i, pc in enumerate(pieces):
                    if pc in ('.', '..') and '.' not in ss[i]:
                        hits.append((p, fl, q, i, ss[i]))
                        break
        sr.distinct = n
        sr.histogram['accepted ./.. by a dot-free segment'] = len(hits)
        if hits and drv:
            sig = drv.ask_many([f'segstarts {W.EXTMATCH | W.FORCEUNIX | W.PATHNAME | W.DOTMATCH | (W.GLOBSTAR if fl & G.G else 0)} 0 {common.enc(p)}' for p, fl, _q, _i, _s in hits])
            for (p, fl, q, i, sg), so in zip(hits, sig):
                kinds = so.split(' ')[1].split(',') if so.startswith('ok ') else []
                kid = None
                if i < len(kinds) and (kinds[i][:1] in ('G', 'I') and len(kinds[i]) > 1 and kinds[i][1] != 'L'):
                    kid = 'KF-D5'          # a group that may match empty, then an unguarded wildcard (also matches ./.. under DOTGLOB)
                sr.histogram[kid or 'unattributed'] = sr.histogram.get(kid or 'unattributed', 0) + 1
                ck.report(Failing(f'globmatch accepts {q!r} for {p!r} under DOTGLOB: the piece {q.split("/")[i]!r} is matched by the segment {sg!r}, which has no written dot',
                                  {'api': 'globmatch', 'pattern': p, 'path': q, 'name': q, 'flags': fl, 'item_kinds': kinds}, False, True,
                                  'wcmatch/_wcparse.py: _NO_DIR guard / match_dot_dir'), kid)
        sr.note = ('`.`/`..` pieces under DOTGLOB|EXTGLOB: globstar-free patterns of 1-3 segments x every path of as many pieces over {a,b,.,..,.a,ab}; '
                   'a segment without any written dot must not match `.`/`..` (attribution to KF-D5 by item kinds: group then non-literal)')
    ck.search('dotdir-under-dotglob', s_dotdir)

    # ---- real trees containing dot files / dot directories / dot-named links (added after seeded
    # change C03b: the walker descended a *hidden symlink* to a directory under `**` with FOLLOW)
    import k5_glob as K
    from wcmatch import wcmatch as WM, pathlib as WP, util as U
    tree_found: list = []
    tstats = {'results_checked': 0, 'hidden_results_granted_by_written_dot': 0, 'wcmatch_runs': 0, 'pathlib_runs': 0}
    SAFE = ['**', '**/*', '*', '*/*', '*/**', '**/a', '**/*/', '?', '?*', '[!x]*', '+(a|b)', '!(x)', '**/!(x)', 'a/**', '*/**/b',
            '**/b/**', '@(a|b|*)', '**/[ab]', '***', '***/a', '***/*', '*/', '**/', 'a/*', '**/?', '**/a/*']
    DOTTED = ['.h/**', '.h/*', '**/.h', '.l/**', '.l/*', '**/.l/*', '.*', '**/.*', '.h/a', '.f', '**/.f']

    def _dot_spec(R_):
        spec = [('a', 'dir', ''), ('.h', 'dir', ''), ('a/.h', 'dir', ''), ('a/b', 'dir', ''), ('.h/a', 'file', ''), ('a/.h/b', 'file', ''),
                ('a/b/a', 'file', ''), ('.f', 'file', ''), ('a/.f', 'file', ''), ('b', 'file', '')]
        # dot-named links: to a directory, to a hidden directory, to a file, to nowhere; a visible link to a hidden dir
        opts = [('.l', 'link', 'a'), ('a/.l', 'link', 'b'), ('a/b/.l', 'link', '../../a/b'), ('.lf', 'link', 'b'), ('.ld', 'link', 'nowhere'),
                ('vl', 'link', '.h'), ('a/vl', 'link', '../.h'), ('a/b/.h', 'dir', ''), ('a/b/.h/a', 'file', ''), ('.l2', 'link', '.h')]
        for o in opts:
            if R_.random() < 0.6:
                spec.append(o)
        return spec

    def _tcases(R_, t):
        out = []
        for _ in range(10 if quick else 30):
            dotted = R_.random() < 0.25
            p = R_.choice(DOTTED if dotted else SAFE)
            fl = G.GLOBSTAR if R_.random() < 0.85 else 0
            for nm, pr in (('FOLLOW', 0.5), ('GLOBSTARLONG', 0.3), ('EXTGLOB', 1.0), ('MARK', 0.2), ('NODIR', 0.1), ('MATCHBASE', 0.15),
                           ('NOUNIQUE', 0.1), ('IGNORECASE', 0.1)):
                if R_.random() < pr:
                    fl |= getattr(G, nm)
            if '***' in p:
                fl |= G.GLOBSTARLONG
            if fl & G.MATCHBASE and p in ('**', '***'):
                fl &= ~G.MATCHBASE          # KF-D6 (implicit prefix + pattern-initial globstar) is searched by the sandwich above
            pp = p
            if R_.random() < 0.2:
                # an exclusion written BEFORE the inclusion (list / SPLIT / BRACE): exclusions behave as if DOTGLOB were set, the
                # inclusions that follow do not (added after seeded change C03e: the walker kept the exclusion's flags)
                ex = R_.choice(['zzz', '*.bak', 'b', '**/zz'])
                form = R_.randrange(3)
                fl |= G.NEGATE
                if form == 0:
                    pp = ['!' + ex, p]
                elif form == 1 and '|' not in p:
                    pp, fl = '!' + ex + '|' + p, fl | G.SPLIT
                elif ',' not in p and '{' not in p:
                    pp, fl = '{!' + ex + ',' + p + '}', fl | G.BRACE
                else:
                    pp = ['!' + ex, p]
            out.append(K.Case(pp, fl, None, R_.choice(['root_dir', 'root_dir', 'cwd', 'dir_fd', 'bytes'])))
        return out

    def _hidden_seg(path: str) -> bool:
        return any(s.startswith('.') for s in path.split('/') if s)

    def _on_case(t, c, st, ev, ms, mev):
        if st != 'ok':
            return
        res = [p_ for k_, p_ in ev if k_ == 'y']
        tstats['results_checked'] += len(res)
        dotfree = all('.' not in q for q in ([c.pats] if isinstance(c.pats, str) else c.pats))
        for r_ in res:
            if _hidden_seg(r_):
                if dotfree:
                    tree_found.append(Failing(f'glob({c.pats!r}) returned {r_!r}: a hidden segment although the pattern contains no written dot',
                                              {**c.to_json(G, t), 'path': r_}, 'no result with a segment beginning with "."', r_,
                                              'wcmatch/glob.py:_glob_dir/_iter hidden filter'))
                else:
                    tstats['hidden_results_granted_by_written_dot'] += 1
        # exclusions of the WALKER behave as if DOTGLOB were set, given by exclude= as well as inline (added after seeded change C03h:
        # Glob.__init__ forced DOTMATCH on its exclusion flags only when NEGATE was set, and exclude= clears NEGATE): hidden results,
        # granted by a written dot of the inclusion, against exclusions that need a wildcard to take that dot
        if (not dotfree and c.mode == 'root_dir' and isinstance(c.pats, str)
                and not c.flags & (G.NEGATE | G.MARK | G.NODIR | G.NOUNIQUE | G.MATCHBASE | G.IGNORECASE) and any(_hidden_seg(r_) for r_ in res)):
            mfl = c.flags & (G.GLOBSTAR | G.EXTGLOB | G.GLOBSTARLONG | G.FOLLOW)
            for q in ('*', '**/*', '*/*', '?*', '**/?', '**/[!x]', '*/**', '**', '?f', '*/?'):
                def _excluded(r_):
                    isd = os.path.isdir(os.path.join(t.root, r_))
                    return G.globmatch(r_.rstrip('/') + '/' if isd else r_, q, flags=(mfl & ~G.FOLLOW) | G.DOTGLOB)
                want = [r_ for r_ in res if not _excluded(r_)]
                try:
                    with common.time_limit(10):
                        got_e = G.glob(c.pats, flags=c.flags, root_dir=t.root, exclude=q)
                        got_i = G.glob([c.pats, '!' + q], flags=c.flags | G.NEGATE, root_dir=t.root)
                except common.CallTimeout:
                    continue
                tstats['walker_exclusions'] = tstats.get('walker_exclusions', 0) + 1
                for how, got in (('exclude=', got_e), ('inline !', got_i)):
                    if got != want:
                        tree_found.append(Failing(f'glob({c.pats!r}) with the exclusion {q!r} ({how}): the exclusion does not behave as if DOTGLOB were set',
                                                  {**c.to_json(G, t), 'exclusion': q, 'given': how}, want[:10], got[:10], 'wcmatch/glob.py:Glob.__init__ (negate_flags)'))
        # the same dot-free pattern as BYTES through a directory descriptor (the walker's hidden test then sees names that os.scandir(fd)
        # produced as str: added after seeded change C03i, where `hidden` was computed on the raw str name — '.' == b'.' is quietly False)
        if dotfree and c.mode in ('root_dir', 'dir_fd') and isinstance(c.pats, str) and not c.flags & (G.NEGATE | G.FOLLOW) and not t.cyclic:
            try:
                fd_ = os.open(t.root, os.O_RDONLY | os.O_DIRECTORY)
                try:
                    with common.time_limit(10):
                        rb_ = [os.fsdecode(x) for x in G.glob(os.fsencode(c.pats), flags=c.flags, dir_fd=fd_)]
                finally:
                    os.close(fd_)
                tstats['bytes_dirfd_runs'] = tstats.get('bytes_dirfd_runs', 0) + 1
                for r_ in rb_:
                    if _hidden_seg(r_):
                        tree_found.append(Failing(f'glob({os.fsencode(c.pats)!r}, dir_fd=) returned {r_!r}: a hidden segment, dot-free bytes pattern',
                                                  {**c.to_json(G, t), 'api': 'glob.glob(bytes, dir_fd)', 'path': r_}, 'none', r_, 'wcmatch/glob.py:Glob._iter (hidden test)'))
                        break
            except (common.CallTimeout, OSError):
                pass
        # the same pattern through pathlib and WcMatch (dot-free patterns only)
        if dotfree and c.mode == 'root_dir' and isinstance(c.pats, str) and not c.flags & G.NEGATE:
            pfl = c.flags & ~(G.MARK | G.NOUNIQUE)
            try:
                with common.time_limit(10):
                    pl = [str(q.relative_to(t.root)) for q in WP.Path(t.root).glob(c.pats, flags=pfl)]
                    pr = [str(q.relative_to(t.root)) for q in WP.Path(t.root).rglob(c.pats, flags=pfl)] if c.pats not in ('**', '***') else []
                tstats['pathlib_runs'] += 1
                for api_, lst in (('Path.glob', pl), ('Path.rglob', pr)):
                    for r_ in lst:
                        if _hidden_seg(r_):
                            tree_found.append(Failing(f'{api_}({c.pats!r}) returned {r_!r}: a hidden segment, dot-free pattern',
                                                      {**c.to_json(G, t), 'api': 'pathlib.' + api_, 'path': r_}, 'none', r_))
            except (common.CallTimeout, ValueError):
                pass
            if '/' not in c.pats and '**' not in c.pats and not (c.flags & G.MATCHBASE):
                try:
                    with common.time_limit(10):
                        wfl = WM.RECURSIVE | (WM.SYMLINKS if c.flags & G.FOLLOW else 0) | (WM.EXTMATCH if c.flags & G.EXTGLOB else 0)
                        wr = [os.path.relpath(x, t.root) for x in WM.WcMatch(t.root, c.pats, flags=wfl).match()]
                    tstats['wcmatch_runs'] += 1
                    for r_ in wr:
                        if _hidden_seg(r_):
                            tree_found.append(Failing(f'WcMatch({c.pats!r}) without HIDDEN returned {r_!r}',
                                                      {**c.to_json(G, t), 'api': 'wcmatch.WcMatch', 'path': r_}, 'none', r_))
                except common.CallTimeout:
                    pass

    def s_k5(sr):
        sr.note = ('K5 on dot-heavy trees (hidden files, hidden directories at three depths, dot-named links to a directory / a hidden '
                   'directory / a file / nowhere, visible links to hidden directories): iglob events vs the Lean walker, '
                   'FOLLOW in half of the runs, `***`, MATCHBASE, all root mechanisms')
        K.k5_loop(sr, drv, G, W, U, R, 60 if quick else 600, _tcases, _on_case, spec_for=_dot_spec)
    if drv:
        ck.stream('K5-dot-trees', s_k5)

    def s_tree(sr):
        sr.note = ('the property on real trees: for a pattern with no written dot, no glob / iglob / Path.glob / Path.rglob / WcMatch '
                   '(no HIDDEN) result has a segment beginning with "." (exact emptiness), DOTGLOB off; results with hidden segments '
                   'for patterns that write the dot are counted')
        sr.histogram = dict(tstats)
        sr.evaluations = tstats['results_checked'] + tstats['pathlib_runs'] + tstats['wcmatch_runs']
        sr.distinct = tstats['pathlib_runs']
        for f in tree_found:
            ck.report(f, None)
    ck.search('hidden-on-real-trees', s_tree)
    # the sandwich searches last: they escalate to thorough depth when a tie is broken and nothing was found yet
    ck.search('hidden-sandwich-glob', s_search)
    ck.search('hidden-sandwich-fnmatch', s_fn)
    ck.search('windows-rules-sandwich', s_win)
    if drv:
        drv.close()
    return ck.finish()


def replay(path: str) -> int:
    import json
    common.import_wcmatch()
    from wcmatch import glob as G, fnmatch as F
    for f in json.load(open(path)).get('failing', []):
        i = f['input']
        if i['api'] == 'fnmatch':
            print(i, '->', F.fnmatch(i['name'], i['pattern'], flags=i['flags']), 'expected', f['expected'])
        else:
            print(i, '->', G.globmatch(i['path'], i['pattern'], flags=i['flags']), 'expected', f['expected'])
    return 0

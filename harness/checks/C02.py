"""C02 — path matching respects separators, segments, globstar and MATCHBASE.

Proof  : Properties/C02.lean — semantics of the path fragments the parser assembles (`[^/]*?`
         never consumes a separator, `[/]+`, the guarded `?`/bracket, the segment-start guards),
         each AST proved to print to the source's text (FragRender), and the piece-count
         theorem of the specification (without a globstar, #pieces = #segments).
         The whole-pattern compiler theorem is proved for file-name patterns (C01); for paths the
         composition is tied by K1/K2 and searched, not proved (level: partial).
Tie    : K1 regex text under path flags; K2 on paths.
Search : executable path specification (segments / globstar expansion / MATCHBASE) vs
         glob.globmatch / globfilter / compile().match on paths whose pieces are not hidden
         (or DOTGLOB), never `.`/`..` (those are C03).
"""
from __future__ import annotations
import warnings

import common
import gen
import pathcheck as P
import streams
from framework import Check, Failing

warnings.simplefilter('ignore')
TARGETS = ['WcModel.Properties.C02']


def run(ck: Check) -> int:
    common.import_wcmatch()
    from wcmatch import glob as G, _wcparse as W
    ck.build()
    ck.audit()
    R = common.rng('C02')
    quick = ck.tier == 'quick'
    drv = common.Driver() if ck.driver_ok else None
    bits = [G.G, G.G, G.GL, G.X, G.D, G.E, G.E, G.O, G.Z, G.I]
    pats = [P.gen_path(R) for _ in range(3000 if quick else 50000)]

    def s_k1(sr):
        cases = []
        base = W.FORCEUNIX | W.PATHNAME
        for p in pats:
            fl = gen.random_flags(R, [W.GLOBSTAR, W.GLOBSTAR, W.GLOBSTARLONG, W.MATCHBASE, W.DOTMATCH, W.EXTMATCH,
                                      W.EXTMATCH, W.NODOTDIR, W.REALPATH, W.IGNORECASE, W._TRANSLATE, W.FOLLOW], 0.35, base)
            cases.append((p, fl, R.random() < 0.15))
        alpha = 'a.*?/[]!(' if quick else 'a.*?/[]!()|\\'
        for fl in (base | W.GLOBSTAR, base | W.GLOBSTAR | W.EXTMATCH | W.DOTMATCH, base | W.GLOBSTARLONG | W.MATCHBASE | W.EXTMATCH):
            for p in gen.exhaustive(alpha, 4 if quick else 5):
                cases.append((p, fl, False))
        for fl in (base | W.GLOBSTAR | W.EXTMATCH, base | W.GLOBSTARLONG | W.EXTMATCH | W.DOTMATCH | W.FOLLOW, base | W.EXTMATCH | W.MATCHBASE | W.GLOBSTAR):
            for p in gen.token_sequences(3 if quick else 4):
                cases.append((p, fl, False))
        streams.k1(sr, drv, cases)
        sr.note = 'K1 regex text (incl. every sequence of <= 3/4 parser-state tokens) under PATHNAME with {GLOBSTAR,GLOBSTARLONG,MATCHBASE,DOTGLOB,EXTGLOB,NODOTDIR,REALPATH,IGNORECASE,_TRANSLATE}'
    ck.stream('K1-parse-text', s_k1)

    paths = P.path_set(False)

    def s_k2(sr):
        base = W.FORCEUNIX | W.PATHNAME
        cases = [(p, gen.random_flags(R, [W.GLOBSTAR, W.GLOBSTAR, W.GLOBSTARLONG, W.MATCHBASE, W.DOTMATCH, W.EXTMATCH, W.NODOTDIR], 0.4, base), False)
                 for p in pats[: (800 if quick else 8000)]]
        streams.k2(sr, drv, cases, paths + ['.a/b', 'a/.b', '..', './a'])
        sr.note = 'K2 re.fullmatch vs Re.fullmatch of the model AST on every path of the path set'
    ck.stream('K2-regex-semantics', s_k2)

    def s_search(sr):
        deep = ck.deep()
        ps = pats if (deep or not quick) else pats[:2000]
        if deep and quick:
            ps = ps + [P.gen_path(R) for _ in range(15000)]
        cases = [(p, gen.random_flags(R, bits, 0.35, G.U)) for p in ps]
        outs = P.pspec(drv, G, cases, paths, 0) if drv else []
        acc = rej = 0
        for k, ((p, fl), o) in enumerate(zip(cases, outs)):
            f = o.split(' ')
            if f[0] != 'ok':
                sr.histogram[f[0]] = sr.histogram.get(f[0], 0) + 1
                continue
            info = P.Info(f)
            sr.distinct += 1
            api = ('globmatch', 'globfilter', 'compile')[k % 3]
            nodir = bool(fl & G.O)
            try:
                with common.time_limit(5):
                    if api == 'globmatch':
                        got = [G.globmatch(n, p, flags=fl) for n in paths]
                    elif api == 'globfilter':
                        keep = set(G.globfilter(paths, p, flags=fl))
                        got = [n in keep for n in paths]
                    else:
                        m = G.compile(p, flags=fl)
                        got = [m.match(n) for n in paths]
            except common.CallTimeout:
                sr.histogram['timeout'] = sr.histogram.get('timeout', 0) + 1
                continue
            for n, b, g in zip(paths, info.bits, got):
                pieces = [x for x in n.split('/') if x]
                if any(x.startswith('.') for x in pieces) and not (fl & G.D):
                    continue
                if any(x in ('.', '..') for x in pieces):
                    continue
                exp = b == '1'
                if nodir and (n.endswith('/')):
                    exp = False          # NODIR: a directory-style path never matches
                sr.evaluations += 1
                acc += exp
                rej += (not exp)
                if bool(g) != exp:
                    kid = None
                    if '\n' in n:
                        kid = 'KF-D3p'      # `$` in look-aheads / the globstar divider / the NODIR regex
                    elif not info.start_safe:
                        kid = 'KF-D1p'
                    ck.report(Failing(f'{api}: path {n!r} pattern {p!r}: code {bool(g)}, documented {exp}',
                                      {'api': 'glob.' + api, 'pattern': p, 'path': n, 'flags': fl}, exp, bool(g)), kid)
                    sr.histogram[kid or 'unattributed'] = sr.histogram.get(kid or 'unattributed', 0) + 1
            if len(sr.samples) < 3 and '1' in info.bits:
                sr.samples.append({'pattern': p, 'flags': hex(fl), 'api': api,
                                   'accepted': [n for n, b in zip(paths, info.bits) if b == '1'][:4]})
        sr.histogram['spec-accepts'] = acc
        sr.histogram['spec-rejects'] = rej
        sr.note = ('executable path specification vs glob.globmatch/globfilter/compile().match; paths up to 3 pieces '
                   'with duplicate/leading/trailing separators; segment patterns that can match the empty string and '
                   '`!(` outside the C01 scope are outside the documented semantics (oos)')
    ck.search('pathspec-vs-globmatch', s_search)
    if drv:
        drv.close()
    return ck.finish()


def replay(path: str) -> int:
    import json
    common.import_wcmatch()
    from wcmatch import glob as G
    for f in json.load(open(path)).get('failing', []):
        i = f['input']
        print(i, '->', G.globmatch(i['path'], i['pattern'], flags=i['flags']), 'expected', f['expected'])
    return 0

"""C02 — path matching respects separators, segments, globstar and MATCHBASE.

Proof  : Properties/C02.lean — semantics of the path fragments the parser assembles (`[^/]*?`
         never consumes a separator, `[/]+`, the guarded `?`/bracket, the segment-start guards),
         each AST proved to print to the source's text (FragRender), and the piece-count
         theorem of the specification (without a globstar, #pieces = #segments).
         The whole-pattern compiler theorem is proved for file-name patterns (C01); for paths the
         composition is tied by K1/K2 and searched, not proved (level: partial).
Tie    : K1 regex text under path flags; K2 on paths.
Search : executable path specification (segments / globstar expansion / MATCHBASE) vs
         glob.globmatch / globfilter / compile().match on paths whose pieces are not hidden
         (or DOTGLOB), never `.`/`..` (those are C03).
"""
from __future__ import annotations
import warnings

import common
import gen
import pathcheck as P
import streams
from framework import Check, Failing

warnings.simplefilter('ignore')
TARGETS = ['WcModel.Properties.C02']


def run(ck: Check) -> int:
    common.import_wcmatch()
    from wcmatch import glob as G, _wcparse as W
    ck.build()
    ck.audit()
    R = common.rng('C02')
    quick = ck.tier == 'quick'
    drv = common.Driver() if ck.driver_ok else None
    bits = [G.G, G.G, G.GL, G.X, G.D, G.E, G.E, G.O, G.Z, G.I]
    pats = [P.gen_path(R) for _ in range(3000 if quick else 50000)]

    def s_k1(sr):
        cases = []
        base = W.FORCEUNIX | W.PATHNAME
        for p in pats:
            fl = gen.random_flags(R, [W.GLOBSTAR, W.GLOBSTAR, W.GLOBSTARLONG, W.MATCHBASE, W.DOTMATCH, W.EXTMATCH,
                                      W.EXTMATCH, W.NODOTDIR, W.REALPATH, W.IGNORECASE, W._TRANSLATE, W.FOLLOW], 0.35, base)
            cases.append((p, fl, R.random() < 0.15))
        alpha = 'a.*?/[]!(' if quick else 'a.*?/[]!()|\\'
        for fl in (base | W.GLOBSTAR, base | W.GLOBSTAR | W.EXTMATCH | W.DOTMATCH, base | W.GLOBSTARLONG | W.MATCHBASE | W.EXTMATCH):
            for p in gen.exhaustive(alpha, 4 if quick else 5):
                cases.append((p, fl, False))
        for fl in (base | W.GLOBSTAR | W.EXTMATCH, base | W.GLOBSTARLONG | W.EXTMATCH | W.DOTMATCH | W.FOLLOW, base | W.EXTMATCH | W.MATCHBASE | W.GLOBSTAR):
            for p in gen.token_sequences(3 if quick else 4):
                cases.append((p, fl, False))
        streams.k1(sr, drv, cases)
        sr.note = 'K1 regex text (incl. every sequence of <= 3/4 parser-state tokens) under PATHNAME with {GLOBSTAR,GLOBSTARLONG,MATCHBASE,DOTGLOB,EXTGLOB,NODOTDIR,REALPATH,IGNORECASE,_TRANSLATE}'
    ck.stream('K1-parse-text', s_k1)

    paths = P.path_set(False)

    def s_k2(sr):
        base = W.FORCEUNIX | W.PATHNAME
        cases = [(p, gen.random_flags(R, [W.GLOBSTAR, W.GLOBSTAR, W.GLOBSTARLONG, W.MATCHBASE, W.DOTMATCH, W.EXTMATCH, W.NODOTDIR], 0.4, base), False)
                 for p in pats[: (800 if quick else 8000)]]
        streams.k2(sr, drv, cases, paths + ['.a/b', 'a/.b', '..', './a'])
        sr.note = 'K2 re.fullmatch vs Re.fullmatch of the model AST on every path of the path set'
    ck.stream('K2-regex-semantics', s_k2)


    def s_tidypath(sr):
        cases = []
        for p in pats:
            cases.append((p, R.random() < 0.5, True, R.random() < 0.7))
        for p in gen.exhaustive('a.*?/!(|)', 4 if quick else 6):
            cases.append((p, len(p) % 2 == 0, True, True))
        outs = drv.ask_many([f'tidypath {int(d)} {int(e)} {int(g)} {common.enc(p)}' for p, d, e, g in cases])
        for (p, d, e, g), o in zip(cases, outs):
            sr.evaluations += 1
            f = o.split(' ')
            k = ' '.join(f[:3]) if o.startswith('ok') and len(f) > 2 and f[2] == 'oos' else ' '.join(f[:2])
            sr.histogram[k] = sr.histogram.get(k, 0) + 1
            if o.startswith('ok same'):
                sr.distinct += 1
                if len(sr.samples) < 3 and len(p) > 4:
                    sr.samples.append({'pattern': p, 'dot': d, 'globstar': g})
            elif (o.startswith('ok diff') and 'oos' not in f[:3]) or o.startswith('err') or o == 'bad-op':
                sr.disagree({'stream': "K1'-path", 'pattern': p, 'dot': d, 'ext': e, 'globstar': g, 'reply': o[:500]})
        sr.note = ("K1' for path mode: canonical AST of the faithful port == canonical AST of the tidy path compiler `compPath` "
                   "(the object of C02path_globfree / C02path_glob) on grammar path patterns in scope and every string <= 4 (6) over "
                   "'a.*?/!(|)' the strict path reader accepts; 'oos'/'none' = outside the theorem's scope / grammar")
    if drv:
        ck.stream('K1prime-tidypath', s_tidypath)

    def s_sepcount(sr):
        """`one_piece_per_segment` (Properties/C02) as an oracle on the real code: a pattern of K segments without `**`
        accepts only paths with exactly K non-empty pieces — nothing but a written separator matches `/`."""
        classes = ['alnum', 'alpha', 'ascii', 'blank', 'cntrl', 'digit', 'graph', 'lower', 'print', 'punct', 'space', 'upper', 'word', 'xdigit']
        atoms = ['a', 'b', '?', '*', '[ab]', '[!a]', '[!-0]', '[+-0]', '[ -~]', '[\\/]', 'a[!b]', '@(a|b)', '+(a|?)', '@(a|[!a])', '!(a)', '*(a)b', '?(a)b',
                 '@(a[!a]b)', '\\a',
                 # groups whose list begins with a written dot (the `match_dot_dir` branch of parse_extend; added after seeded change C02g: the
                 # need-one-character guard of `!(.x)` was lost under DOTGLOB, so `a/!(.x)/c` accepted `a//c`)
                 '!(.a)', '!(.a|b)', '!(.)', '!(..|.a)', '@(.a|b)', '!(.a)b', '*(.a|b)b'] + [f'[[:{c}:]]' for c in classes] + [f'a[[:{c}:]]b' for c in classes] + [f'[![:{c}:]]' for c in classes[:4]] + \
                [f'@([[:{c}:]])' for c in ('punct', 'graph', 'print', 'ascii')] + [f'a@(x|[[:{c}:]])b' for c in ('punct', 'graph')]
        paths2 = [''.join(t) for L in range(1, 6) for t in __import__('itertools').product('ab/', repeat=L)]
        paths2 = [q for q in paths2 if not q.startswith('/')]
        n = 0
        for K in (1, 2, 3):
            combos = list(__import__('itertools').product(atoms, repeat=K)) if K == 1 else \
                [tuple(R.choice(atoms) for _ in range(K)) for _ in range(400 if quick and not ck.deep() else 6000)]
            for segs in combos:
                p = '/'.join(segs)
                for fl in (G.U | G.E, G.U | G.E | G.D | G.G, G.U | G.E | G.I, G.U | G.E | G.D):
                    sr.distinct += 1
                    try:
                        with common.time_limit(5):
                            if n % 2:
                                m = G.compile(p, flags=fl)
                                acc = [q for q in paths2 if m.match(q)]
                            else:
                                acc = G.globfilter(paths2, p, flags=fl)
                    except common.CallTimeout:
                        continue
                    n += 1
                    sr.evaluations += len(paths2)
                    for q in acc:
                        k = len([x for x in q.split('/') if x])
                        if k != K:
                            ck.report(Failing(f'pattern {p!r} ({K} segments, no globstar) accepts {q!r} ({k} pieces): a non-separator construct matched "/" '
                                              'or a separator matched nothing',
                                              {'api': 'glob.globmatch', 'pattern': p, 'path': q, 'flags': fl}, False, True,
                                              'wcmatch/_wcparse.py: _sequence / _restrict_sequence / path_star'), None)
                            sr.histogram['FAIL'] = sr.histogram.get('FAIL', 0) + 1
                            break
                    sr.histogram['accepting-patterns'] = sr.histogram.get('accepting-patterns', 0) + (1 if acc else 0)
        sr.note = s_sepcount.__doc__.replace('\n        ', ' ') + (' Segments: literals, ?, *, brackets (negated, ranges spanning "/", every POSIX class alone / '
                                                                   'mid-segment / inside groups), extended groups; paths: every relative string <= 5 over "ab/".')
    ck.search('one-piece-per-segment', s_sepcount)

    def s_escsep(sr):
        """an escaped separator `\\/` written in the pattern is a separator: the pattern with some `/` spelled `\\/` must accept
        exactly what the plain pattern accepts (start-of-segment state, MATCHBASE reset, separator runs) — seeded change C02d"""
        segs = ['a', 'b', '*', '?', '**', '[ab]', 'a*', '*b', '@(a|b)', '!(a)', '.a', 'ab']
        n = 0
        for _ in range(400 if quick and not ck.deep() else 6000):
            k = R.randint(2, 4)
            parts = [R.choice(segs) for _ in range(k)]
            plain = '/'.join(parts) + ('/' if R.random() < 0.2 else '')
            esc = ''
            for ch in plain:
                esc += ('\\/' if (ch == '/' and R.random() < 0.6) else ch)
            if esc == plain:
                continue
            fl = gen.random_flags(R, [G.G, G.G, G.X, G.D, G.E, G.E, G.I], 0.4, G.U)
            try:
                with common.time_limit(5):
                    a = G.globfilter(paths, plain, flags=fl)
                    b = G.globfilter(paths, esc, flags=fl)
            except common.CallTimeout:
                continue
            n += 1
            sr.evaluations += len(paths)
            if a != b:
                d = sorted(set(a) ^ set(b))[:4]
                ck.report(Failing(f'pattern {esc!r} (escaped separators) differs from {plain!r} on {d!r}',
                                  {'api': 'glob.globfilter', 'pattern': esc, 'plain': plain, 'path': d[0], 'flags': fl}, d[0] in a, d[0] in b,
                                  'wcmatch/_wcparse.py:_references (escaped separator)'), None)
        sr.distinct = n
        sr.note = s_escsep.__doc__.replace('\n        ', ' ')
    ck.search('escaped-separator-is-a-separator', s_escsep)

    def s_search(sr):
        deep = ck.deep()
        ps = pats if (deep or not quick) else pats[:2000]
        if deep and quick:
            ps = ps + [P.gen_path(R) for _ in range(15000)]
        cases = [(p, gen.random_flags(R, bits, 0.35, G.U)) for p in ps]
        outs = P.pspec(drv, G, cases, paths, 0) if drv else []
        acc = rej = 0
        for k, ((p, fl), o) in enumerate(zip(cases, outs)):
            f = o.split(' ')
            if f[0] != 'ok':
                sr.histogram[f[0]] = sr.histogram.get(f[0], 0) + 1
                continue
            info = P.Info(f)
            sr.distinct += 1
            api = ('globmatch', 'globfilter', 'compile')[k % 3]
            nodir = bool(fl & G.O)
            try:
                with common.time_limit(5):
                    if api == 'globmatch':
                        got = [G.globmatch(n, p, flags=fl) for n in paths]
                    elif api == 'globfilter':
                        keep = set(G.globfilter(paths, p, flags=fl))
                        got = [n in keep for n in paths]
                    else:
                        m = G.compile(p, flags=fl)
                        got = [m.match(n) for n in paths]
            except common.CallTimeout:
                sr.histogram['timeout'] = sr.histogram.get('timeout', 0) + 1
                continue
            for n, b, g in zip(paths, info.bits, got):
                pieces = [x for x in n.split('/') if x]
                if any(x.startswith('.') for x in pieces) and not (fl & G.D):
                    continue
                if any(x in ('.', '..') for x in pieces):
                    continue
                exp = b == '1'
                if nodir and (n.endswith('/')):
                    exp = False          # NODIR: a directory-style path never matches
                sr.evaluations += 1
                acc += exp
                rej += (not exp)
                if bool(g) != exp:
                    kid = None
                    if '\n' in n and ('!(' in p or '**' in p or nodir or fl & G.X) and not (nodir and n.endswith('/') and g):
                        # (a directory-style path accepted under NODIR was D18 — the NODIR regex could not cross a newline — which is
                        # repaired: unattributed)
                        # `$` in the look-ahead of `!(`, in the globstar divider (written `**` or the MATCHBASE prefix), in the NODIR regex — nowhere else (narrowed after
                        # seeded change C02f: `match` for `fullmatch` accepted `a/b\n` for the pattern `a/b`)
                        kid = 'KF-D3p'
                    elif not info.start_safe:
                        kid = 'KF-D1p'
                    ck.report(Failing(f'{api}: path {n!r} pattern {p!r}: code {bool(g)}, documented {exp}',
                                      {'api': 'glob.' + api, 'pattern': p, 'path': n, 'flags': fl}, exp, bool(g)), kid)
                    sr.histogram[kid or 'unattributed'] = sr.histogram.get(kid or 'unattributed', 0) + 1
            if len(sr.samples) < 3 and '1' in info.bits:
                sr.samples.append({'pattern': p, 'flags': hex(fl), 'api': api,
                                   'accepted': [n for n, b in zip(paths, info.bits) if b == '1'][:4]})
        sr.histogram['spec-accepts'] = acc
        sr.histogram['spec-rejects'] = rej
        sr.note = ('executable path specification vs glob.globmatch/globfilter/compile().match; paths up to 3 pieces '
                   'with duplicate/leading/trailing separators; segment patterns that can match the empty string and '
                   '`!(` outside the C01 scope are outside the documented semantics (oos)')
    ck.search('pathspec-vs-globmatch', s_search)

    def s_win(sr):
        # THE SAME SPECIFICATION UNDER WINDOWS RULES (session 5; the content of C02win.C02_read_glob_win on the real code; added after seeded
        # change C02m — the end-of-piece look-ahead of `!(…)` lost the backslash under FORCEWIN — which the Unix-only search could report as
        # a broken proof obligation only): pattern without a backslash and without a drive-like beginning; FORCEWIN on a path whose
        # separators are rewritten to backslashes (all / the first only) = the documented language, case folded, of the path itself.
        import re as _re
        deep = ck.deep()
        ps = [p for p in (pats if (deep or not quick) else pats[:2000]) if '\\' not in p and not _re.match(r'(?s).:|//', p)]
        cases = [(p, gen.random_flags(R, [b for b in bits if b not in (G.X, G.O)], 0.35, G.U) | G.I) for p in ps]
        outs = P.pspec(drv, G, cases, paths, 0) if drv else []

        def swaps(n):
            out = [n.replace('/', '\\')]
            if n.count('/') > 1:
                i = n.index('/')
                out.append(n[:i] + '\\' + n[i + 1:])
            return out
        for (p, fl), o in zip(cases, outs):
            f = o.split(' ')
            if f[0] != 'ok':
                sr.histogram[f[0]] = sr.histogram.get(f[0], 0) + 1
                continue
            info = P.Info(f)
            sr.distinct += 1
            wfl = (fl & ~G.U & ~G.I) | G.W
            try:
                with common.time_limit(5):
                    m = G.compile(p, flags=wfl)
                    rows = []
                    for n, b in zip(paths, info.bits):
                        pieces = [x for x in n.split('/') if x]
                        if '\n' in n or any(x.startswith('.') for x in pieces):
                            continue
                        for w in swaps(n):
                            rows.append((n, w, b == '1', bool(m.match(w))))
            except common.CallTimeout:
                sr.histogram['timeout'] = sr.histogram.get('timeout', 0) + 1
                continue
            for n, w, exp, g in rows:
                sr.evaluations += 1
                if g != exp:
                    kid = 'KF-D1p' if not info.start_safe else None
                    ck.report(Failing(f'FORCEWIN: path {w!r} pattern {p!r}: code {g}, documented (case folded, on {n!r}) {exp}',
                                      {'api': 'glob.globmatch', 'pattern': p, 'path': w, 'flags': wfl}, exp, g), kid)
                    sr.histogram[kid or 'unattributed'] = sr.histogram.get(kid or 'unattributed', 0) + 1
            if len(sr.samples) < 2:
                sr.samples.append({'pattern': p, 'flags': hex(wfl), 'accepted': [w for _, w, _, g in rows if g][:4]})
        sr.note = ('Windows rules: executable path specification under IGNORECASE on a path = glob.compile(FORCEWIN).match on the path with its '
                   'separators rewritten to backslashes (all / the first only); visible pieces, patterns without backslash and drive-like beginning')
    ck.search('pathspec-vs-globmatch-forcewin', s_win)

    def s_empty(sr):
        """the empty pattern (written as '', as a dangling backslash, as an empty SPLIT alternative, as an empty list member)
        has the language {''}: it matches no path with a non-empty piece, with or without MATCHBASE (added after seeded change
        C02e: the MATCHBASE prefix alone became the whole regex)"""
        names = [n for n in paths if n.strip('/')]
        for fl0 in (G.U, G.U | G.X, G.U | G.X | G.G, G.U | G.X | G.D, G.U | G.X | G.G | G.GL, G.U | G.X | G.E | G.D):
            for pat, fl, what in (('', fl0, 'empty'), ('\\', fl0, 'dangling backslash'), (['', ''], fl0, 'empty list members'),
                                  ('|', fl0 | G.S, 'empty SPLIT alternatives'), ('a.txt|', fl0 | G.S, 'SPLIT with an empty alternative'),
                                  ('{,}', fl0 | G.B, 'empty BRACE alternatives')):
                try:
                    keep = set(G.globfilter(names, pat, flags=fl))
                    one = {n for n in names if G.globmatch(n, pat, flags=fl)}
                except Exception as e:      # noqa: BLE001
                    sr.histogram['raises ' + type(e).__name__] = sr.histogram.get('raises ' + type(e).__name__, 0) + 1
                    continue
                base = 'a.txt' if isinstance(pat, str) and pat.startswith('a.txt') else None
                for n in names:
                    sr.evaluations += 1
                    if base is not None:
                        last = [x for x in n.split('/') if x][-1]
                        exp = (last == base) if fl & G.X else (n.strip('/') == base and not n.startswith('/'))
                        if fl & G.X and n.startswith('/'):
                            continue        # rooted paths under MATCHBASE: C02's main search
                    else:
                        exp = False
                    for api, got in (('globfilter', n in keep), ('globmatch', n in one)):
                        if got != exp:
                            ck.report(Failing(f'{api}: {what}: pattern {pat!r} path {n!r}: code {got}, documented {exp}',
                                              {'api': 'glob.' + api, 'pattern': pat, 'path': n, 'flags': fl}, exp, got), None)
        sr.distinct = 36
        sr.note = s_empty.__doc__.replace('\n        ', ' ')
    ck.search('empty-pattern', s_empty)

    def s_mb_hist(sr):
        # MATCHBASE in a history that mixes the two separator styles: each call is judged by its own rules whatever was compiled before
        # (added after seeded change C02i: the regex of the implicit `**/` prefix was memoised under a key without the separator style, so
        # after a FORCEWIN MATCHBASE compile `globmatch('dir\\b.txt', 'b.txt', MATCHBASE|FORCEUNIX)` was True)
        sr.note = ('slash-less patterns under MATCHBASE, alternately with FORCEWIN and FORCEUNIX (± DOTGLOB, REALPATH-free), on paths whose last '
                   'separator is `/` or a backslash: Unix rules — the backslash is a name character; Windows rules — it is a separator; both orders, '
                   'globmatch / globfilter / compile().match / translate+re')
        import re as _re
        pats = ['b.txt', '*.txt', 'b*', '?.txt']
        paths = ['dir/b.txt', 'dir\\b.txt', 'b.txt', 'x/dir\\b.txt', 'dir\\sub/b.txt', 'dir/sub\\b.txt', 'dir\\c.md', 'dir/c.md']

        def want(path, pat, win):
            base = _re.split(r'[\\/]' if win else r'/', path)[-1]
            rx = _re.escape(pat).replace('\\*', '[^/\\\\]*' if win else '[^/]*').replace('\\?', '[^/\\\\]' if win else '[^/]')
            return _re.fullmatch(rx, base, _re.S | (_re.I if win else 0)) is not None
        for rnd in range(2):
            for order in ((True, False), (False, True), (True, True, False), (False, False, True)):
                for extra in (0, G.D):
                    for win in order:
                        fl = G.MATCHBASE | extra | (G.FORCEWIN if win else G.FORCEUNIX)
                        for pat in pats:
                            sr.evaluations += 1
                            api = ('globmatch', 'globfilter', 'compile', 'translate')[sr.evaluations % 4]
                            if api == 'globmatch':
                                got = [bool(G.globmatch(q, pat, flags=fl)) for q in paths]
                            elif api == 'globfilter':
                                keep = set(G.globfilter(paths, pat, flags=fl))
                                got = [q in keep for q in paths]
                            elif api == 'compile':
                                m_ = G.compile(pat, flags=fl)
                                got = [bool(m_.match(q)) for q in paths]
                            else:
                                pos, neg = G.translate(pat, flags=fl)
                                got = [any(_re.fullmatch(r_, q) for r_ in pos) and not any(_re.fullmatch(r_, q) for r_ in neg) for q in paths]
                            exp = [want(q, pat, win) for q in paths]
                            if got != exp:
                                bad = [q for q, a, b in zip(paths, exp, got) if a != b]
                                ck.report(Failing(f'{api}: MATCHBASE pattern {pat!r} under {"Windows" if win else "Unix"} rules, asked after calls under the other rules: wrong on {bad[:3]}',
                                                  {'api': 'glob.' + api, 'pattern': pat, 'flags': fl, 'paths': paths, 'history': ['FORCEWIN' if x else 'FORCEUNIX' for x in order]}, exp, got), None)
                                sr.histogram['FAIL'] = sr.histogram.get('FAIL', 0) + 1
                            else:
                                sr.histogram['holds'] = sr.histogram.get('holds', 0) + 1
        sr.distinct = len(pats) * 8
    ck.search('matchbase-histories', s_mb_hist)

    def s_unclosed(sr):
        # a group opener that is never closed is literal text, and what FOLLOWS it keeps its meaning: the pattern equals its spelling with the
        # opener escaped (added after seeded change C02k: a failed `@(` left the parser "inside a list", so a later `**` was no globstar)
        heads = ['@(', '+(', '?(', '*(', '!(', 'x@(', '@(a|b', '+(a', '@(!(']
        tails = ['a/**/b', '/**/b', 'a/**', '/**', 'a/*/b', 'a/**/b/**/c', '/b', 'a\\/**\\/b']
        paths = ['@(a/b', '@(a/x/b', '@(a/x/y/b', '+(a/b', '?(a/x/b', '*(a/b', '!(a/x/y/b', 'x@(a/b', '@(a|ba/b', '@(a|ba/x/y/b', '+(aa/q/b', '@(!(a/b', '@(!(a/x/y/b',
                 '@(/b', '@(/x/b', '@(a/', '@(a/x', '@(a/x/y', '@(a/b/c', '@(a/x/b/y/z/c', '@(a/q/b', 'a/b', '@(a']

        def esc_head(h):
            # (`?` and `*` of a failed `?(` / `*(` stay wildcards; `@`, `+`, `!` and the parenthesis are ordinary characters)
            return ''.join('\\' + ch if ch in '@+!(|)' else ch for ch in h)
        sr.note = (f'{len(heads)} unclosed openers x {len(tails)} continuations (whole-segment `**`, escaped separators) under EXTGLOB|GLOBSTAR (± DOTGLOB): '
                   'globmatch / globfilter / compile of the pattern = of the pattern with the opener escaped, on paths with zero, one and several segments under `**`')
        for h in heads:
            for t in tails:
                if '(' in t or ')' in t:
                    continue
                p1, p2 = h + t, esc_head(h) + t
                for fl in (G.U | G.E | G.G, G.U | G.E | G.G | G.D):
                    sr.evaluations += 1
                    a = [bool(G.globmatch(q, p1, flags=fl)) for q in paths]
                    b = [bool(G.globmatch(q, p2, flags=fl)) for q in paths]
                    keep = set(G.globfilter(paths, p1, flags=fl))
                    a2 = [q in keep for q in paths]
                    if a != b or a2 != b:
                        bad = [q for q, x, y in zip(paths, a, b) if x != y] or [q for q, x, y in zip(paths, a2, b) if x != y]
                        ck.report(Failing(f'pattern {p1!r} (unclosed group opener) differs from its escaped spelling {p2!r} on {bad[:4]}',
                                          {'api': 'glob.globmatch', 'pattern': p1, 'escaped': p2, 'flags': fl, 'paths': paths}, b, a), None)
                        sr.histogram['FAIL'] = sr.histogram.get('FAIL', 0) + 1
                    else:
                        sr.histogram['holds'] = sr.histogram.get('holds', 0) + 1
        sr.distinct = len(heads) * len(tails)
    ck.search('unclosed-opener-is-literal', s_unclosed)
    if drv:
        drv.close()
    return ck.finish()


def replay(path: str) -> int:
    import json
    common.import_wcmatch()
    from wcmatch import glob as G
    for f in json.load(open(path)).get('failing', []):
        i = f['input']
        print(i, '->', G.globmatch(i['path'], i['pattern'], flags=i['flags']), 'expected', f['expected'])
    return 0

"""C04 — globmatch with REALPATH matches exactly what glob globs.

Proof part : Properties/C04.lean — side clauses for every tree/pattern/flag word (non-existent path,
             is-dir slash, follow table, per-piece link rule for every `**` group) and the D8 / G2 witnesses
             through the whole pipeline; `D7_fixed_witness`, `G3_fixed_witness` of the repaired D7 / G3.
Tie        : K6 — `globmatch` / `globfilter` with REALPATH (root_dir, cwd, dir_fd) on every entry
             of the tree, entries reached through links, non-existent and absolute spellings and
             everything `glob` returned vs `Match.matchReal`; K5 (iglob events) on the same trees.
Search     : the property itself on the real code: { strip(p) | p in glob } against
             { u in entries ∪ strip(glob) | globmatch(u, REALPATH) }, same flags, same root.
"""
from __future__ import annotations
import os
import warnings

import common
import k5_glob as K
from framework import Check, Failing

warnings.simplefilter('ignore')
TARGETS = ['WcModel.Properties.C04']

FLAGS = ['GLOBSTAR', 'GLOBSTARLONG', 'FOLLOW', 'DOTGLOB', 'EXTGLOB', 'MATCHBASE', 'NODIR', 'IGNORECASE', 'NEGATE']


# (id, tree spec, pattern, flags, path, globmatch(path, REALPATH) must be, path in glob must be)
FIXED_LINK_WITNESSES = [
    ('KF-D7', [['f', 'file', ''], ['lf', 'link', 'f']], '**', ['GLOBSTAR'], 'lf', True, True),
    ('KF-D7', [['f', 'file', ''], ['dang', 'link', 'nowhere']], '**', ['GLOBSTAR'], 'dang', True, True),
    ('KF-G3', [['a', 'dir', ''], ['a/x', 'dir', ''], ['d', 'dir', ''], ['d/f', 'file', ''], ['a/x/l', 'link', '../../d']],
     '**/x/**', ['GLOBSTAR'], 'a/x/l/f', False, False),
    ('KF-RGLOBSTAR', [['a', 'dir', ''], ['a/f', 'file', ''], ['b', 'link', 'a']], '***', ['GLOBSTARLONG', 'MATCHBASE'], 'b/f', True, True),
]
FIXED_SITE = {'KF-D7': 'wcmatch/_wcmatch.py:93-103 (at_end)', 'KF-G3': 'wcmatch/_wcmatch.py:105 (base per group)',
              'KF-RGLOBSTAR': 'wcmatch/glob.py:370-383 (implicit globstar part)'}


def _flags(R, G, t, p):
    fl = 0
    for nm in FLAGS:
        pr = 0.6 if nm in ('GLOBSTAR', 'EXTGLOB') else (0.1 if nm == 'NEGATE' else 0.25)
        if R.random() < pr:
            fl |= getattr(G, nm)
    if t.cyclic:
        fl &= ~G.FOLLOW
        if '***' in p:
            fl &= ~G.GLOBSTARLONG
    return fl


def _link_exclusion_case(R, G, t):
    """an exclusion whose `**` spans a symlinked directory while the inclusion reaches files through the link by written
    segments (added after seeded change C04f: exclusions were symlink-checked by globmatch but not by glob)"""
    links = [rel for rel, kind, _ in t.desc if kind == 'link']
    if not links or not t.names:
        return None
    ln = R.choice(links)
    names = sorted(t.names)
    pos = R.choice(['*/*', '*/*/*', G.escape(ln) + '/*', G.escape(ln) + '/**', '***', '**/*', '*/**', '*'])
    nm = G.escape(R.choice(names))
    ex = R.choice(['**/' + nm, '**/*', '**/' + nm + '/**', '*/**', '**', '**/' + nm + '/*', G.escape(ln.split('/')[0]) + '/**'])
    fl = G.GLOBSTAR
    for b, pr in ((G.EXTGLOB, 0.5), (G.DOTGLOB, 0.4), (G.GLOBSTARLONG, 0.3), (G.FOLLOW, 0.1), (G.MARK, 0.15), (G.NODIR, 0.1)):
        if R.random() < pr:
            fl |= b
    if t.cyclic:
        fl &= ~G.FOLLOW
        if '***' in pos:
            fl &= ~G.GLOBSTARLONG
    mode = R.choice(['root_dir', 'root_dir', 'cwd', 'dir_fd'])
    if R.random() < 0.6:
        return K.Case(pos, fl, [ex], mode)
    return K.Case([pos, '!' + ex], fl | G.NEGATE, None, mode)


def _cases(R, G, t, n):
    out = []
    for _ in range(n):
        if R.random() < 0.15:
            c = _link_exclusion_case(R, G, t)
            if c is not None:
                out.append(c)
                continue
        if R.random() < 0.8:
            pats = K.gen_pattern(R, G, t)
        else:
            pats = [K.gen_pattern(R, G, t) for _ in range(2)]
        joined = pats if isinstance(pats, str) else ' '.join(pats)
        fl = _flags(R, G, t, joined)
        excl = [K.gen_pattern(R, G, t, False)] if R.random() < 0.12 else None
        out.append(K.Case(pats, fl, excl, R.choice(['root_dir', 'root_dir', 'cwd', 'dir_fd'])))
    return out


def strip(p: str) -> str:
    q = p.rstrip('/')
    return q if q else p


_EMPTY_CACHE: dict = {}


def can_empty(seg: str) -> bool:
    """can this pattern segment match the empty string (e.g. `*(a)`, `?(a)`, `@(|b)`)"""
    if seg not in _EMPTY_CACHE:
        import re
        from wcmatch import fnmatch as F
        try:
            rx = re.compile(F.translate(seg, flags=F.EXTMATCH | F.DOTMATCH)[0][0])
            _EMPTY_CACHE[seg] = rx.fullmatch('') is not None
        except Exception:  # noqa: BLE001
            _EMPTY_CACHE[seg] = False
    return _EMPTY_CACHE[seg]


def attribute(G, t, c, glob_only: set, match_only: set, raw_results: list[str], S1: set):
    """known-finding ids for S1 != S2 by call-site signature; None = unexplained"""
    ids = set()
    pats = [c.pats] if isinstance(c.pats, str) else list(c.pats)
    segs = [[s for s in p.split('/') if s] for p in pats]
    text = ' '.join(pats)
    nstars = sum(1 for ss in segs for s in ss if s in ('**', '***'))
    matchbase = bool(c.flags & G.MATCHBASE)
    ext = bool(c.flags & G.EXTGLOB)
    empty_last = ext and any(ss and can_empty(ss[-1]) for ss in segs)
    star_last = any(ss and ss[-1] in ('**', '***') for ss in segs)
    globstar = bool(c.flags & (G.GLOBSTAR | G.GLOBSTARLONG))

    def full(u):
        return u if u.startswith('/') else os.path.join(t.root, u)

    def linkdir(u):
        cs = u.split('/')
        return any(os.path.islink(full('/'.join(cs[:j]))) and os.path.isdir(full('/'.join(cs[:j]))) for j in range(1, len(cs)))
    long = bool(c.flags & G.GLOBSTARLONG)
    # KF-G7 is about CONSECUTIVE `**`/`***` segments (merged differently by walker and regex); the implicit
    # MATCHBASE part is `***` under GLOBSTARLONG|FOLLOW and merges with a pattern-initial `**`
    def _consecutive_mixed(ss):
        return any(ss[i] in ('**', '***') and ss[i + 1] in ('**', '***') and ss[i] != ss[i + 1] for i in range(len(ss) - 1))
    mixed_stars = long and (any(_consecutive_mixed(ss) for ss in segs) or
                            (matchbase and bool(c.flags & G.FOLLOW) and any(ss and ss[0] == '**' for ss in segs)))
    other_magic = any(s not in ('**', '***') and G.is_magic(s, flags=c.flags) for ss in segs for s in ss) or \
        (not long and any('***' in ss for ss in segs))
    def dot_segment():
        # a pattern segment other than a written `.`/`..` that accepts `.` or `..` (D5 / D15 family)
        for ss in segs:
            for sg in ss:
                if sg in ('.', '..', '**', '***'):
                    continue
                try:
                    if G.globmatch('..', sg, flags=(c.flags & (G.EXTGLOB | G.DOTGLOB | G.IGNORECASE))) or \
                            G.globmatch('.', sg, flags=(c.flags & (G.EXTGLOB | G.DOTGLOB | G.IGNORECASE))):
                        return True
                except Exception:  # noqa: BLE001
                    pass
        return False
    dotseg = None
    for u in sorted(glob_only | match_only):
        if any(comp in ('.', '..') for comp in u.split('/')):
            if dotseg is None:
                dotseg = dot_segment()
            if dotseg:
                ids.add('KF-D5')
                glob_only = glob_only - {u}
                match_only = match_only - {u}
    for u in glob_only:
        f = full(u)
        if not os.path.lexists(f):
            ids.add('KF-D17')
        elif (u + '/') in raw_results and not os.path.isdir(f):
            ids.add('KF-D17')                      # `f/**` -> `f/` for a regular file
        # (KF-G6 — MATCHBASE leaking into the per-part regexes: `*(a)/x` returned `q/x`, `?` returned `a/a\n` — is
        #  repaired, like D14: a glob-only result under MATCHBASE with a segment that can match empty, or a name
        #  ending in a newline, is unattributed)
        elif linkdir(u) and mixed_stars:
            ids.add('KF-G7')                       # `**/***`: glob keeps the later star, the regex the earlier one
        elif linkdir(u) and nstars >= 1 and globstar and (nstars >= 2 or other_magic):
            ids.add('KF-G8')                       # only the first regex decomposition is link-tested
        else:
            return None
    for u in match_only:
        f = full(u)
        comps = u.split('/')
        has_linkdir = any(os.path.islink(full('/'.join(comps[:j]))) and os.path.isdir(full('/'.join(comps[:j])))
                          for j in range(1, len(comps)))
        if c.flags & G.IGNORECASE and u.lower() in {x.lower() for x in S1}:
            ids.add('KF-G2')
        elif (('!(' in text and ext) or (nstars >= 1 and globstar) or matchbase) and any(comp.endswith('\n') for comp in comps):
            # `$` inside the look-ahead of `!(…)`, or in the divider `(?:^|$|/)+` after a `**` — written, or the
            # implicit `**/` of MATCHBASE — accepts before a final \n (the walker has no such regex: since the G6
            # repair its per-part regexes carry no prefix, so under MATCHBASE this difference is visible)
            ids.add('KF-D3')
        elif not os.path.isdir(f) and any(p.rstrip('/').endswith('**') and p.endswith('/') for p in pats):
            ids.add('KF-D8')
        elif empty_last and (os.path.isdir(f) or (globstar and nstars >= 1) or matchbase):
            # a last segment that can match empty: `dir/*(a)` accepts `dir`; after a `**/` — written, or the implicit
            # one of MATCHBASE — it accepts every name (`**` takes the name, the segment the nothing that is left)
            ids.add('KF-G5')
        elif matchbase and star_last and any(k.startswith('.') for k in comps) and not c.flags & G.DOTGLOB:
            ids.add('KF-D6')
        elif has_linkdir and mixed_stars:
            ids.add('KF-G7')
        else:
            return None
    return sorted(ids)


def run(ck: Check) -> int:
    common.import_wcmatch()
    from wcmatch import glob as G, _wcparse as W, util as U
    ck.build()
    ck.audit()
    R = common.rng('C04')
    drv = common.Driver() if ck.driver_ok else None
    quick = ck.tier == 'quick'
    ntrees, per = (300, 12) if quick else (10000, 20)
    found: list = []
    k6 = {'evaluations': 0, 'accepted': 0, 'rejected': 0, 'disagree': []}
    stats = {'compared': 0, 'equal': 0, 'equal_nonempty': 0, 'side:nonexistent': 0, 'side:abs-vs-rel': 0, 'side:dir-slash': 0}

    def on_case(t, c, st, ev, ms, mev):
        if st != 'ok':
            return
        res = [p for k, p in ev if k == 'y']
        fl = c.flags | G.REALPATH
        # ---------------- K6: model vs code on the candidate universe
        cands = K.candidates(t, res)
        try:
            pe, ee = K.match_expansions(W, U, G, c.pats, fl, c.exclude)
        except Exception:  # noqa: BLE001
            return
        api = 'globfilter' if len(res) % 2 else 'globmatch'
        rs, bits = K.run_real_match(G, t, cands, c.pats, fl, c.exclude, api, c.mode)
        m = drv.ask(K.match_line(t, fl, pe, ee, cands))
        if m == 'timeout':
            return
        k6['evaluations'] += len(cands)
        if rs != 'ok' or not m.startswith('ok '):
            k6['disagree'].append({'stream': 'K6', **c.to_json(G, t), 'code': (rs, bits[:60]), 'model': m[:60]})
            return
        mb = m[3:]
        k6['accepted'] += bits.count('1')
        k6['rejected'] += bits.count('0')
        if mb != bits:
            d = [(x, a, b) for x, a, b in zip(cands, bits, mb) if a != b][:4]
            k6['disagree'].append({'stream': 'K6', **c.to_json(G, t), 'api': api, 'path/code/model': d})
        # the same answers when the root is a descriptor on the parent plus a root_dir relative to it (relative candidates only)
        if c.mode in ('root_dir', 'dir_fd') and not t.cyclic:
            rel = [x for x in cands if not x.startswith('/')]
            relbits = ''.join(b for x, b in zip(cands, bits) if not x.startswith('/'))
            pl0 = [c.pats] if isinstance(c.pats, str) else list(c.pats)
            if rel and not any(q.startswith('/') for q in pl0):
                rs3, bits3 = K.run_real_match(G, t, rel, c.pats, fl, c.exclude, api, 'fd+root')
                stats['side:fd+root'] = stats.get('side:fd+root', 0) + len(rel)
                if rs3 == 'ok' and bits3 != relbits:
                    d3 = [(x, a, b) for x, a, b in zip(rel, relbits, bits3) if a != b][:4]
                    found.append(Failing(f'{api}(REALPATH): the answer through dir_fd=<parent> + root_dir=<name> differs from the answer through {c.mode} for {d3[0][0]!r}',
                                         {**c.to_json(G, t), 'path/one-root/fd+root': d3}, relbits[:40], bits3[:40], 'wcmatch/_wcmatch.py:_fs_match (base of the link test)'))
        # ---------------- side clauses, on the real code
        verdict = dict(zip(cands, bits))
        for x in cands:
            f = x if x.startswith('/') else os.path.join(t.root, x)
            if not os.path.lexists(f):
                stats['side:nonexistent'] += 1
                if verdict[x] == '1':
                    found.append(Failing(f'REALPATH matched the non-existent path {x!r}', c.to_json(G, t), False, True,
                                         'wcmatch/_wcmatch.py:212-231'))
        # "a relative pattern never matches an absolute path" (REALPATH): absolute spellings of existing entries
        # (added after seeded change C04c: the MATCHBASE prefix lost its root guard)
        plist = [c.pats] if isinstance(c.pats, str) else list(c.pats)
        if all(q and not q.startswith(('/', '!', '-', '~', '\\')) for q in plist) and not fl & (G.BRACE | G.SPLIT | G.NEGATE) and c.exclude is None:
            abs_c = [os.path.join(t.root, e) for e in t.entries[:8]]
            abs_c += [a + '/' for a in abs_c if os.path.isdir(a)]
            rsA, bitsA = K.run_real_match(G, t, abs_c, c.pats, fl, None, 'globmatch', c.mode)
            if rsA == 'ok':
                stats['side:abs-vs-rel'] += len(abs_c)
                for a, b in zip(abs_c, bitsA):
                    if b == '1':
                        found.append(Failing(f'REALPATH: the relative pattern {c.pats!r} matched the absolute path {a!r}',
                                             {**c.to_json(G, t), 'path': a}, False, True, 'wcmatch/_wcparse.py:_NO_ROOT / MATCHBASE prefix'))
                        break
        # ---------------- the property: glob set vs REALPATH-match set
        S1 = {strip(p) for p in res}
        # existing paths reached THROUGH symlinked directories belong to the universe as well (a written
        # segment follows links): added after seeded change C04a (dir_fd + O_NOFOLLOW emptied `ln/*`)
        through = {strip(x) for x in cands if not x.startswith(('/', './')) and x not in ('.', '..') and 'nope' not in x
                   and os.path.lexists(os.path.join(t.root, x))}
        universe = sorted({strip(e) for e in t.entries} | S1 | through)
        rs2, bits2 = K.run_real_match(G, t, universe, c.pats, fl, c.exclude, 'globfilter', c.mode)
        if rs2 != 'ok':
            return
        S2 = {u for u, b in zip(universe, bits2) if b == '1'}
        stats['compared'] += 1
        if S1 == S2:
            stats['equal'] += 1
            if S1:
                stats['equal_nonempty'] += 1
            return
        ids = attribute(G, t, c, S1 - S2, S2 - S1, res, S1)
        f = Failing('glob and globmatch(REALPATH) disagree', c.to_json(G, t),
                    {'glob_only': sorted(S1 - S2)[:8]}, {'globmatch_only': sorted(S2 - S1)[:8]},
                    'wcmatch/_wcmatch.py:93-112, wcmatch/glob.py')
        if ids is None:
            found.append(f)
        else:
            for i in ids:
                stats[i] = stats.get(i, 0) + 1
                ck.report(f, i)

    def s_k5(sr):
        sr.note = 'K5: iglob event sequence vs the Lean walker on the trees and patterns the C04 comparison uses'
        K.k5_loop(sr, drv, G, W, U, R, ntrees, lambda R_, t: _cases(R_, G, t, per), on_case)
    ck.stream('K5-glob-events', s_k5)

    # sibling directories that differ only in case, IGNORECASE, a LITERAL first segment and two or more further segments (several
    # starting paths; seeded change C04d hoisted the remaining-segments list out of the per-start loop; the random trees caught it
    # only by luck)
    def _case_spec(R_):
        spec = [('pkg', 'dir', ''), ('PKG', 'dir', ''), ('Pkg', 'dir', ''), ('pkg/src', 'dir', ''), ('PKG/src', 'dir', ''), ('Pkg/src', 'dir', ''),
                ('pkg/src/core', 'dir', ''), ('PKG/src/core', 'dir', ''), ('pkg/src/core/a1.txt', 'file', ''), ('PKG/src/core/b2.txt', 'file', ''),
                ('Pkg/src/c3.txt', 'file', ''), ('pkg/src/d4.txt', 'file', ''), ('PKG/src/core/sub', 'dir', ''), ('PKG/src/core/sub/e5.txt', 'file', ''),
                ('other', 'dir', ''), ('other/src', 'dir', ''), ('other/src/f6.txt', 'file', '')]
        keep = [e for e in spec if R_.random() < 0.92]
        have = {e[0] for e in keep}
        return [e for e in keep if '/' not in e[0] or e[0].rsplit('/', 1)[0] in have]

    CASE_PATS = ['pkg/src/core/*.txt', 'pkg/src/*', 'pkg/*/core/*', 'pkg/**/*.txt', 'PKG/src/core/*', 'pkg/src/core/sub/*', 'pkg/src/*/*',
                 'pkg/src/**', 'pkg/*/*/*/*', 'other/src/*', 'pkg/src/core/', 'pkg/s*/c*/?[0-9].txt', 'Pkg/src/core/**/e5.txt']

    def _case_cases(R_, t):
        out = []
        for _ in range(6 if quick else 14):
            fl = G.IGNORECASE if R_.random() < 0.85 else 0
            for nm, pr in (('GLOBSTAR', 0.7), ('MARK', 0.15), ('EXTGLOB', 0.3), ('NODIR', 0.1)):
                if R_.random() < pr:
                    fl |= getattr(G, nm)
            out.append(K.Case(R_.choice(CASE_PATS), fl, None, R_.choice(['root_dir', 'root_dir', 'cwd', 'dir_fd'])))
        return out

    def s_k5case(sr):
        sr.note = 'K5 + the C04 comparison on trees with sibling directories that differ only in case (pkg / PKG / Pkg), literal first segment'
        K.k5_loop(sr, drv, G, W, U, R, 25 if quick else 300, _case_cases, on_case, spec_for=_case_spec)
    ck.stream('K5-case-variant-starts', s_k5case)

    # two (or more) globstars, a symlinked directory under an EARLIER one and real directories under a later one (added after seeded
    # change C04i: `_fs_match` stopped leaving its loops at the first captured link, and a later group of real directories set the
    # verdict back to True: `link/sub/deep/y.txt` accepted for `**/sub/**/*.txt`, which glob never returns)
    def _two_spec(R_):
        spec = [('d', 'dir', ''), ('d/sub', 'dir', ''), ('d/sub/deep', 'dir', ''), ('d/sub/deep/y.txt', 'file', ''), ('d/sub/x.txt', 'file', ''),
                ('d/sub/deep/er', 'dir', ''), ('d/sub/deep/er/z.txt', 'file', ''), ('link', 'link', 'd'), ('top.txt', 'file', ''),
                ('d/l2', 'link', 'sub'), ('e', 'dir', ''), ('e/sub', 'dir', ''), ('e/sub/w.txt', 'file', '')]
        keep = [e for e in spec if R_.random() < 0.95]
        have = {e[0] for e in keep}
        return [e for e in keep if '/' not in e[0] or e[0].rsplit('/', 1)[0] in have]

    TWO_PATS = ['**/sub/**/*.txt', '**/sub/**', '**/deep/**', '**/sub/**/deep/*', '**/d/**/deep/**', '**/sub/**/er/*', '*/sub/**', '**/sub/*/**/*.txt',
                '**/**/sub/**', 'link/**/deep/**', '**/l2/**', '**/deep/**/z.txt', '***/sub/**/*.txt', '**/sub/***/*.txt']

    def _two_cases(R_, t):
        out = []
        for _ in range(8 if quick else 16):
            p = R_.choice(TWO_PATS)
            fl = G.GLOBSTAR | (G.GLOBSTARLONG if '***' in p else 0)
            for nm, pr in (('MARK', 0.15), ('EXTGLOB', 0.3), ('DOTGLOB', 0.2)):
                if R_.random() < pr:
                    fl |= getattr(G, nm)
            out.append(K.Case(p, fl, None, R_.choice(['root_dir', 'root_dir', 'cwd', 'dir_fd'])))
        return out

    def s_k5two(sr):
        sr.note = 'K5 + the C04 comparison on trees with a symlinked directory above real directories, patterns with two or more globstars'
        K.k5_loop(sr, drv, G, W, U, R, 20 if quick else 300, _two_cases, on_case, spec_for=_two_spec)
    if drv:
        ck.stream('K5-two-globstars-link-first', s_k5two)

    def s_caps(sr):
        import streams
        import gen
        import pathcheck as PC
        gp = [PC.gen_path(R) for _ in range(1500 if quick else 20000)]
        gp = [p for p in gp if '**' in p][: (500 if quick else 8000)] + ['**', '**/a', 'a/**', '**/a/**', '***/a/**', '**/*/**', '*/**/a', '**/**']
        base = W.PATHNAME | W.GLOBSTAR | W.REALPATH | W.EXTMATCH | W.FORCEUNIX
        cases = [(p, base | (W.DOTMATCH if R.random() < 0.4 else 0) | (W.GLOBSTARLONG if R.random() < 0.3 else 0) |
                  (W.MATCHBASE if R.random() < 0.15 else 0), False) for p in gp]
        names = [n for n in gen.names_upto('ab/', 4) if n] + ['a/b/a/b', 'b/a/a/', 'ab/a/b', '.a/b', 'a/.b/a']
        streams.k2cap(sr, drv, cases, names)
        sr.note = ('K2-captures: the `**` group spans re.fullmatch reports under REALPATH (globstar capture on) vs Re.fullmatchCap of the model AST — '
                   'what _fs_match walks (fullmatchCap_spans / real_link_rule_first are about these spans)')
    if drv:
        ck.stream('K2-capture-spans', s_caps)

    def s_k6(sr):
        sr.note = ('K6: globmatch/globfilter(REALPATH) via root_dir/cwd/dir_fd on every tree entry (also through links), '
                   'with/without trailing separator, non-existent and absolute spellings, and every glob result vs matchReal')
        sr.evaluations = k6['evaluations']
        sr.distinct = k6['evaluations']
        sr.histogram = {'accepted': k6['accepted'], 'rejected': k6['rejected']}
        for d in k6['disagree']:
            sr.disagree(d)
    ck.stream('K6-matchReal', s_k6)

    def s_search(sr):
        sr.note = 'the property on the real code: strip(glob) vs {u in entries ∪ strip(glob) | globmatch(u, REALPATH)}'
        sr.histogram = dict(stats)
        sr.evaluations = stats['compared']
        sr.distinct = stats['compared']
        for f in found:
            ck.report(f, None)
    ck.search('glob-vs-globmatch', s_search)

    def s_fixed(sr):
        _fixed_witnesses(ck, sr, G)
    # repaired defects: their old witnesses must NOT reproduce (a reproduction is an unattributed violation)
    def s_fixed_links(sr):
        sr.note = ('the witnesses of the repaired D7 (link to a file / dangling link as last piece of `**`), G3 (second `**` group '
                   'lstat-ed under the wrong base) and RGLOBSTAR (implicit MATCHBASE globstar in front of a pattern-initial globstar), '
                   'replayed on the real code: glob vs globmatch(REALPATH)')
        for kid, spec, pat, fl, name, want_match, want_in_glob in FIXED_LINK_WITNESSES:
            t = K.make_tree(R, [tuple(x) for x in spec])
            try:
                flags = 0
                for nm in fl:
                    flags |= getattr(G, nm)
                c = K.Case(pat, flags, None, 'root_dir')
                st, ev = K.run_real(G, t, pat, flags, None, 'root_dir')
                res = {strip(p) for k, p in ev if k == 'y'}
                rs, bits = K.run_real_match(G, t, [name], pat, flags | G.REALPATH, None, 'globmatch', 'root_dir')
                sr.evaluations += 1
                sr.distinct += 1
                got = (bits == '1', name in res)
                ok = st == 'ok' and rs == 'ok' and got == (want_match, want_in_glob)
                sr.histogram[f'{kid} fixed witness ' + ('holds' if ok else 'REPRODUCED: the defect is back')] = 1
                if not ok:
                    ck.report(Failing(f'repaired defect {kid} is back: globmatch({name!r}, {pat!r}, REALPATH) = {got[0]}, glob returns it: {got[1]}',
                                      {**c.to_json(G, t), 'name': name}, {'globmatch': want_match, 'in_glob': want_in_glob},
                                      {'globmatch': got[0], 'in_glob': got[1]}, FIXED_SITE[kid]), None)
            finally:
                t.remove()
    ck.search('fixed-witnesses', s_fixed)
    ck.search('fixed-witnesses-links', s_fixed_links)
    if drv:
        drv.close()
    return ck.finish(assumptions=[
        "Re.runCap (first match in Python's priority order) is validated against re, not proved",
        'brace/split/tilde expansion supplied from the real _wcparse.expand'])


# repaired defects whose old witnesses are still replayed on the real code (a reproduction is an unattributed
# violation): (id, site, tree, pattern, flag names, what glob must return = what globmatch(REALPATH) accepts)
FIXED_WITNESSES = [
    ('KF-G6', 'wcmatch/glob.py:289-291', [('q', 'dir', ''), ('q/x', 'file', '')], '*(a)/x', ['EXTGLOB', 'MATCHBASE'], []),
    ('KF-G6', 'wcmatch/glob.py:289-291', [('a', 'dir', ''), ('a/a\n', 'dir', '')], '?', ['MATCHBASE'], ['a']),
    ('KF-G6', 'wcmatch/glob.py:289-291', [('q', 'dir', ''), ('q/x', 'file', ''), ('b', 'file', '')], '*(a|b)',
     ['EXTGLOB', 'MATCHBASE'], ['b']),
]


def _fixed_witnesses(ck: Check, sr, G) -> None:
    """the witnesses of the repaired C04 findings must NOT reproduce: `glob` returns exactly the listed paths"""
    import shutil
    import tempfile
    for kid, site, tree, pat, names, want in FIXED_WITNESSES:
        top = tempfile.mkdtemp(prefix='c04-w-', dir='/tmp')
        try:
            for rel, kind, _ in tree:
                full = os.path.join(top, rel)
                if kind == 'dir':
                    os.makedirs(full, exist_ok=True)
                else:
                    os.makedirs(os.path.dirname(full), exist_ok=True)
                    open(full, 'w').close()
            fl = 0
            for nm in names:
                fl |= getattr(G, nm)
            got = sorted(strip(p) for p in G.glob(pat, flags=fl, root_dir=top))
            sr.evaluations += 1
            sr.distinct += 1
            if got != sorted(want):
                sr.histogram[f'{kid} (fixed) witness REPRODUCED: the defect is back'] = \
                    sr.histogram.get(f'{kid} (fixed) witness REPRODUCED: the defect is back', 0) + 1
                ck.report(Failing(f'repaired defect {kid} is back: glob({pat!r}, {"|".join(names)}) returns paths the pattern does not denote',
                                  {'api': 'glob.glob', 'pattern': pat, 'flags': names, 'flags_int': fl, 'exclude': None,
                                   'tree': [list(x) for x in tree]}, sorted(want), got, site), None)
            else:
                sr.histogram[f'{kid} fixed witness holds'] = sr.histogram.get(f'{kid} fixed witness holds', 0) + 1
        finally:
            shutil.rmtree(top, ignore_errors=True)
    sr.note = 'the witnesses of the repaired C04 findings (KF-G6), replayed on the real code: they must not reproduce'


def replay(path: str) -> int:
    import json
    common.import_wcmatch()
    from wcmatch import glob as G
    data = json.load(open(path))
    for f in data.get('failing', []):
        i = f['input']
        t = K.make_tree(common.rng('replay'), [tuple(x) for x in i['tree']])
        try:
            st, ev = K.run_real(G, t, i['pattern'], i['flags_int'], i.get('exclude'), 'root_dir')
            res = [p for k, p in ev if k == 'y']
            uni = sorted({strip(e) for e in t.entries} | {strip(p) for p in res})
            rs, bits = K.run_real_match(G, t, uni, i['pattern'], i['flags_int'] | G.REALPATH, i.get('exclude'))
            print('glob:', sorted(strip(p) for p in res))
            print('globmatch:', [u for u, b in zip(uni, bits) if b == '1'])
        finally:
            t.remove()
    return 0

import sys, itertools, time, random
sys.path.insert(0, '/verif/harness')
from common import *
import_wcmatch()
from wcmatch import _wcparse as W
import warnings; warnings.simplefilter('ignore')
d = Driver()
R = random.Random(int(sys.argv[1]) if len(sys.argv) > 1 else 0)
N = int(sys.argv[2]) if len(sys.argv) > 2 else 20000
win = len(sys.argv) > 3 and sys.argv[3] == 'win'
toks = ['a', 'b', 'A', '.', '..', '*', '**', '***', '?', '[', ']', '!', '^', '-', '(', ')', '|', '+', '@', '\\', '/', '//', ':', '[:alpha:]', '[:digit:]', '[[:upper:]]', '[a-z]', '[!a]', '[z-a]', '!(', '@(', '*(', '+(', '?(', '\\.', '\\/', '\\\\', '&', '~', ' ', '\n', 'é', '{', '}', ',', '#', '$']
pubbits = [W.CASE, W.IGNORECASE, W.RAWCHARS, W.NEGATE, W.MINUSNEGATE, W.PATHNAME, W.DOTMATCH, W.EXTMATCH, W.GLOBSTAR, W.BRACE, W.REALPATH, W.FOLLOW, W.SPLIT, W.MATCHBASE, W.NODIR, W.NEGATEALL, W.GLOBTILDE, W.NOUNIQUE, W.NODOTDIR, W.GLOBSTARLONG, W._TRANSLATE, W._ANCHOR, W._EXTMATCHBASE, W._NOABSOLUTE, W._NO_GLOBSTAR_CAPTURE]
heavy = [W.PATHNAME, W.EXTMATCH, W.GLOBSTAR, W.DOTMATCH]
t0 = time.time(); bad = 0
cases = []
for _ in range(N):
    p = ''.join(R.choice(toks) for _ in range(R.randint(1, 8)))
    fl = W.FORCEWIN if win else W.FORCEUNIX
    for b in pubbits:
        if R.random() < 0.25: fl |= b
    for b in heavy:
        if R.random() < 0.5: fl |= b
    if not fl & W.PATHNAME: fl &= ~(W.MATCHBASE | W._EXTMATCHBASE)
    isb = R.random() < 0.2 and all(ord(c) < 256 for c in p)
    cases.append((p, fl, isb))
outs = d.ask_many([f'parse {fl} {int(isb)} {enc(p)}' for p, fl, isb in cases])
for (p, fl, isb), o in zip(cases, outs):
    try:
        r = W.WcParse(p.encode('latin-1') if isb else p, fl).parse()
        py = 'ok ' + (r.decode('latin-1') if isb else r)
    except ValueError:
        py = 'err ValueError'
    f = o.split(' ')
    mo = 'ok ' + dec(f[1]) if f[0] == 'ok' else o
    if py != mo:
        bad += 1
        if bad <= 12:
            print('DIFF flags=%#x bytes=%d pat=%r\n  py=%s\n  mo=%s' % (fl, isb, p, py, mo))
print(N, 'compared', bad, 'diffs', round(time.time() - t0, 1), 's')

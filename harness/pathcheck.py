"""Shared pieces of the C02 / C03 checks: path pattern generation, path sets, the
spec-vs-globmatch search with attribution to listed known findings."""
from __future__ import annotations
import itertools

import common
import gen
from framework import Failing


def gen_seg(R, ext: bool) -> str:
    """a segment pattern that (mostly) cannot match the empty string"""
    atoms = ['a', 'b', 'A', '.', 'ab', '\\*', '-', '?', '*', '[ab]', '[!a]', '[a-c]', '[[:alpha:]]', '[.]', '[!.]']
    n = R.randint(1, 3)
    out = []
    for k in range(n):
        r = R.random()
        if ext and r < 0.25:
            kind = R.choice('?*+@!')
            alts = [''.join(R.choice(atoms) for _ in range(R.randint(0 if kind in '?*' else 1, 2)))
                    for _ in range(R.randint(1, 3))]
            if kind == '!' and R.random() < 0.7:
                out.append(kind + '(' + '|'.join(alts) + ')')
                out.append(''.join(R.choice(['a', 'b', '.', '.txt']) for _ in range(R.randint(0, 1))))
                break
            out.append(kind + '(' + '|'.join(alts) + ')')
        else:
            out.append(R.choice(atoms))
    return ''.join(out)


def gen_path(R, ext: bool = True) -> str:
    n = R.randint(1, 4)
    segs = []
    for _ in range(n):
        if R.random() < 0.25:
            segs.append(R.choice(['**', '**', '***']))
        else:
            segs.append(gen_seg(R, ext))
    p = segs[0]
    for s in segs[1:]:
        p += ('/' if R.random() < 0.9 else '//') + s
    if R.random() < 0.15:
        p = '/' + p
    if R.random() < 0.2:
        p += '/'
    return p


def path_set(hidden: bool, maxlen: int = 8) -> list[str]:
    pieces = ['a', 'b', 'ab', 'A', 'a.b', '-', 'a.txt'] + (['.a', '.', '..', '.b.'] if hidden else [])
    out = set()
    for L in range(1, 4):
        for t in itertools.product(pieces, repeat=L):
            s = '/'.join(t)
            out.add(s)
            if L < 3:
                out.add(s + '/')
                out.add('/' + s)
                out.add(s.replace('/', '//'))
    out |= {'a\n', 'a/b\n', 'a/\n'}
    return sorted(p for p in out if len(p) <= maxlen)


def pspec(drv, G, cases, paths, rule: int):
    encn = ' '.join(common.enc(n) for n in paths)
    return drv.ask_many([
        f'pspec {int(bool(fl & G.I))} {int(bool(fl & G.D))} {int(bool(fl & G.E))} {int(bool(fl & G.G))} '
        f'{int(bool(fl & G.GL))} {int(bool(fl & G.X))} {rule} {common.enc(p)} {encn}' for p, fl in cases])


class Info:
    def __init__(self, f):
        self.bits = f[1]
        self.start_safe, self.neg_free, self.d4, self.d5, self.d15, self.first_glob = (x == '1' for x in f[2:8])

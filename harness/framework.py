"""Check framework: every property check is `harness/checks/<ID>.py` exposing

    def run(ck: Check) -> None

and uses the `Check` object below for the common steps:

    ck.build()                      # extract.py + lake build of the property's Lean targets
    ck.audit()                      # #print axioms on every property theorem, forbidden-word grep
    ck.stream(name, fn)             # a correspondence stream (model vs code); fn returns StreamResult
    ck.search(name, fn)             # spec-vs-implementation differential = failing-input search
    ck.finish()                     # KNOWN-FINDING / VIOLATION lines, evidence file, exit code

Decision rule (DESIGN §4): a proof obligation that no longer builds, or a correspondence
stream that disagrees, is not by itself a violation: it triggers the search at thorough depth.
A failing input that is not attributed to a listed known finding is reported as
`VIOLATION property=<id> replay=<path>`; if a tie is broken and the search finds nothing the
line ends with `no-failing-input-found` and the replay file names the broken tie.
"""
from __future__ import annotations
import json
import os
import sys
import time
import traceback

sys.path.insert(0, os.path.dirname(os.path.abspath(__file__)))
import common  # noqa: E402


class Failing:
    """A concrete input on which the property fails on the real code."""

    def __init__(self, what: str, inp: dict, expected, observed, site: str = '', extra: dict | None = None):
        self.what = what            # one-line description
        self.inp = inp              # JSON-able input (api, pattern, flags, name, tree, history …)
        self.expected = expected    # by the specification
        self.observed = observed    # from /repo
        self.site = site
        self.extra = extra or {}

    @staticmethod
    def _clip(v, n: int = 2000):
        r = repr(v)
        return v if len(r) <= n else r[:n] + f'... <{len(r)} chars>'

    def to_json(self) -> dict:
        return {'what': self.what[:1000], 'input': self._clip(self.inp, 6000), 'expected': self._clip(self.expected),
                'observed': self._clip(self.observed), 'site': self.site, **self.extra}


class StreamResult:
    def __init__(self, name: str):
        self.name = name
        self.evaluations = 0
        self.distinct = 0
        self.disagreements: list[dict] = []   # model-vs-code differences (first few kept)
        self.n_disagree = 0
        self.samples: list = []
        self.histogram: dict = {}
        self.note = ''
        self.wall_s = 0.0

    def disagree(self, d: dict) -> None:
        self.n_disagree += 1
        if len(self.disagreements) < 5:
            self.disagreements.append(d)


class Check:
    def __init__(self, prop: str, tier: str, targets: list[str] | None = None):
        self.prop = prop
        self.tier = tier
        self.t0 = time.time()
        self.targets = list(targets) if targets is not None else [f'WcModel.Properties.{prop}']
        # the hand-written regex fragments of the model (Model/Frag.lean) = the source's constants (Generated.lean): a tie of
        # every property whose theorems mention them, not only of the ones that import it (seeded change C12f edited RE_NO_DIR)
        if prop not in ('C07', 'C11', 'C14', 'C15', 'C19', 'C20') and 'WcModel.Proofs.FragRender' not in self.targets:
            self.targets.append('WcModel.Proofs.FragRender')
        # every module WcModel/Properties/<ID>*.lean belongs to the property (e.g. C05split, C10wf)
        pdir = os.path.join(common.LEAN, 'WcModel', 'Properties')
        for f in sorted(os.listdir(pdir)):
            if f.startswith(prop) and f.endswith('.lean') and f'WcModel.Properties.{f[:-5]}' not in self.targets:
                self.targets.append(f'WcModel.Properties.{f[:-5]}')
        self.build_ok = True
        self.build_log = ''
        self.broken_ties: list[str] = []       # theorems / modules / streams that no longer check
        self.theorems: list[dict] = []
        self.streams: list[StreamResult] = []
        self.searches: list[StreamResult] = []
        self.failing: list[Failing] = []       # unattributed failing inputs
        self.known_hits: dict[str, Failing] = {}  # known-finding id -> a witness seen in this run
        self.known = common.known_findings(prop)
        self.notes: list[str] = []
        self.driver_ok = True
        self.drift = self._source_drift()
        if self.drift:
            self.notes.append('source drift (AST of anchor files differs from the fingerprint the model was written against): '
                              + ', '.join(self.drift) + ' — searches run at thorough depth; drift alone is not a violation')

    def _source_drift(self) -> list[str]:
        try:
            sys.path.insert(0, os.path.join(common.VERIF, 'tools'))
            import fingerprint
            rec = json.load(open(os.path.join(common.VERIF, 'harness', 'source_fingerprint.json')))['files']
            cur = fingerprint.fingerprints(common.REPO)
            anchors = None
            for line in open(os.path.join(common.VERIF, 'properties.jsonl')):
                pr = json.loads(line)
                if pr['id'] == self.prop:
                    anchors = set(pr.get('anchors', {}).get('files', []))
            changed = sorted(f for f in set(rec) | set(cur) if rec.get(f) != cur.get(f))
            if anchors:
                # _wcparse / _wcmatch / util sit under every entry point
                anchors |= {'wcmatch/_wcparse.py', 'wcmatch/_wcmatch.py', 'wcmatch/util.py'}
                changed = [f for f in changed if f in anchors]
            return changed
        except Exception:  # noqa: BLE001
            return []

    # -- step 1/2: build -----------------------------------------------------------------
    def build(self) -> bool:
        # the driver first (model + spec only), then the proofs: a broken proof must not take
        # the executable model away from the failing-input search
        d = common.lake_build(['wcdriver'])
        self.build_log += d.log
        if not d.ok:
            self.driver_ok = os.path.exists(common.DRIVER)
            self.build_ok = False
            self.broken_ties += [f'model no longer compiles: {m}' for m in d.failed_modules] or ['wcdriver build']
        b = common.lake_build(self.targets)
        self.build_log += b.log
        if not b.ok:
            self.build_ok = False
            self.broken_ties += [f'proof obligation no longer checks: {m}' for m in b.failed_modules] or \
                [f'lake build {" ".join(self.targets)}']
        return self.build_ok

    # -- step 3: audit -------------------------------------------------------------------
    def audit(self) -> bool:
        if not self.build_ok:
            return False
        ok, thms, log = common.audit(self.prop)
        self.theorems = thms
        if not ok:
            bad = [t for t in thms if not set(t['axioms']) <= common.ALLOWED_AXIOMS]
            self.broken_ties.append('axiom audit failed: ' + (json.dumps(bad) if bad else log[-400:]))
        hits = common.grep_forbidden()
        if hits:
            ok = False
            self.broken_ties.append('forbidden construct in Lean sources: ' + '; '.join(hits[:5]))
        return ok

    # -- step 4: correspondence ----------------------------------------------------------
    def stream(self, name: str, fn) -> StreamResult:
        sr = StreamResult(name)
        if not self.driver_ok:
            sr.note = 'skipped: no model driver'
            self.streams.append(sr)
            return sr
        _t = time.time()
        try:
            fn(sr)
        except Exception:
            sr.note = 'stream crashed: ' + traceback.format_exc()[-800:]
            self.broken_ties.append(f'correspondence stream {name} crashed: {sr.note[-300:]}')
        sr.wall_s = round(time.time() - _t, 1)
        if sr.n_disagree:
            self.broken_ties.append(f'correspondence stream {name}: {sr.n_disagree} disagreement(s), first: '
                                    + json.dumps(sr.disagreements[0], default=str)[:600])
        self.streams.append(sr)
        return sr

    # -- step 5: search ------------------------------------------------------------------
    def search(self, name: str, fn) -> StreamResult:
        sr = StreamResult(name)
        _t = time.time()
        try:
            fn(sr)
        except Exception:
            sr.note = 'search crashed: ' + traceback.format_exc()[-800:]
            self.broken_ties.append(f'search {name} crashed: {sr.note[-300:]}')
        sr.wall_s = round(time.time() - _t, 1)
        self.searches.append(sr)
        return sr

    def deep(self) -> bool:
        """Search depth: thorough when asked for, or whenever a tie is broken — until a concrete
        unattributed failing input has been found (that is what the escalation is for)."""
        if self.tier == 'thorough':
            return True
        # quick tier: escalate while a tie is broken and nothing was found, for at most 12 minutes of the run
        return (bool(self.broken_ties) or bool(self.drift)) and not self.failing and (time.time() - self.t0) < 720

    def report(self, f: Failing, known_id: str | None = None) -> None:
        """Report a failing input; `known_id` if the caller attributed it to a listed finding."""
        if known_id is not None and any(k.get('id') == known_id for k in self.known):
            self.known_hits.setdefault(known_id, f)
        else:
            if len(self.failing) < 20:
                self.failing.append(f)

    # -- step 6: verdict -----------------------------------------------------------------
    def finish(self, level: str = 'proof', extra_cov: dict | None = None, assumptions: list[str] | None = None) -> int:
        wall = time.time() - self.t0
        rc = 0
        lines: list[str] = []
        for k in self.known:
            if k.get('status', 'open') == 'open':
                lines.append(f"KNOWN-FINDING: property={self.prop} {k['id']} {k['what']}")
        if self.failing:
            f = self.failing[0]
            path = common.write_replay(self.prop, {
                'property': self.prop, 'kind': 'failing-input', 'failing': [x.to_json() for x in self.failing],
                'broken_ties': self.broken_ties, 'seed': common.seed(), 'tier': self.tier,
                'replay_cmd': f'./check {self.prop} --replay <this file>'})
            lines.append(f'VIOLATION property={self.prop} replay={os.path.relpath(path, common.VERIF)}')
            print(f'# failing input: {f.what}', file=sys.stderr)
            rc = 1
        elif self.broken_ties:
            path = common.write_replay(self.prop, {
                'property': self.prop, 'kind': 'broken-tie', 'broken_ties': self.broken_ties,
                'build_log_tail': self.build_log[-3000:], 'seed': common.seed(), 'tier': self.tier,
                'searches': [{'name': s.name, 'evaluations': s.evaluations, 'note': s.note} for s in self.searches]})
            lines.append(f'VIOLATION property={self.prop} replay={os.path.relpath(path, common.VERIF)} no-failing-input-found')
            rc = 1
        for ln in lines:
            print(ln)
        sys.stdout.flush()
        # ---- evidence
        obligations = len(self.theorems)
        discharged = obligations if self.build_ok else 0
        evals = sum(s.evaluations for s in self.streams + self.searches)
        distinct = sum(s.distinct for s in self.streams + self.searches)
        samples: list = []
        for s in self.streams + self.searches:
            for x in s.samples[:3]:
                samples.append({'stream': s.name, 'case': x})
        cov = {
            'obligations': max(obligations, 0),
            'discharged': discharged,
            'checker_cmd': f'cd lean && lake build {" ".join(self.targets)} && lake env lean Audit/{self.prop}.lean'
                           + (' && lake env leanchecker ' + ' '.join(self.targets) if self.tier == 'thorough' else ''),
            'trusted_base': common.TRUSTED_BASE,
            'theorems': self.theorems,
            'evaluations': evals,
            'distinct_nontrivial': distinct,
            'rule': 'per stream: see streams[].note; distinct = distinct inputs (pattern/flags/name/tree/history) '
                    'compared between the Lean model (or executable spec) and the real code',
            'samples': samples or [{'note': 'no stream ran'}],
            'streams': [{'name': s.name, 'evaluations': s.evaluations, 'distinct': s.distinct,
                         'disagreements': s.n_disagree, 'histogram': s.histogram, 'note': s.note, 'wall_s': s.wall_s}
                        for s in self.streams],
            'searches': [{'name': s.name, 'evaluations': s.evaluations, 'distinct': s.distinct,
                          'histogram': s.histogram, 'note': s.note, 'wall_s': s.wall_s} for s in self.searches],
            'known_findings_seen': {k: v.to_json() for k, v in self.known_hits.items()},
            'broken_ties': self.broken_ties,
            'notes': self.notes,
        }
        if extra_cov:
            cov.update(extra_cov)
        common.write_evidence(self.prop, self.tier, level, cov, wall, len(self.failing) + (1 if rc and not self.failing else 0),
                              assumptions)
        return rc


def main(argv: list[str]) -> int:
    import argparse
    import importlib
    ap = argparse.ArgumentParser()
    ap.add_argument('prop')
    ap.add_argument('--tier', default=os.environ.get('VERIF_TIER', 'quick'), choices=['quick', 'thorough'])
    ap.add_argument('--replay', default=None)
    a = ap.parse_args(argv)
    mod = importlib.import_module(f'checks.{a.prop}')
    if a.replay:
        return mod.replay(a.replay)
    ck = Check(a.prop, a.tier, getattr(mod, 'TARGETS', None))
    try:
        rc = mod.run(ck)
    except Exception:
        traceback.print_exc()
        return 2
    return rc if isinstance(rc, int) else 0

"""K9: call histories, cache collisions, eviction, threads, and the compiled matcher objects.

`Pool` = (function, pattern, flags, names, bytes?) tuples built to collide in the key space of
`_wcparse._compile` (same text under different flags, str vs bytes, translate vs compile of the same
pattern) plus > 256 distinct patterns to force eviction.  Every call is a pure function of its
arguments (and, for glob(), of a fixed small tree); a *reference* result is computed with the cache
cleared before the call, and another one in a fresh interpreter.
"""
from __future__ import annotations
import copy
import json
import os
import pickle
import shutil
import subprocess
import sys
import tempfile
import threading
import warnings

import common
import k4_lists as K

warnings.simplefilter('ignore')

NAMES = ['a', 'b', 'A', 'a.txt', 'A.TXT', '.h', '.a.txt', 'ab', 'd/a', 'd/a.txt', 'p7x', 'P7X', 'p300', 'a|b', '{a,b}']
BASE = ['*.txt', 'a*', '[ab]', '?', '**/a', '@(a|b)', '!(a)', '{a,b}', 'a|b', '*', '.*', 'A*', '[!a]*', 'd/*', '**', '*.TXT', 'p7*']


def build_pool(w: K.World, R, n_distinct: int = 300):
    """list of call descriptors (dict), deliberately colliding"""
    F, G = w.F, w.G
    pool = []
    fn_flags = [0, F.IGNORECASE, F.DOTMATCH, F.EXTMATCH, F.EXTMATCH | F.NEGATE, F.BRACE | F.SPLIT, F.CASE, F.FORCEWIN,
                F.EXTMATCH | F.DOTMATCH | F.IGNORECASE]
    gl_flags = [0, G.IGNORECASE, G.DOTGLOB, G.EXTGLOB, G.GLOBSTAR, G.GLOBSTAR | G.DOTGLOB, G.BRACE | G.SPLIT, G.MATCHBASE,
                G.GLOBSTAR | G.EXTGLOB | G.NEGATE, G.NODIR, G.FORCEWIN,
                # the internal capture / follow switches depend on REALPATH, _TRANSLATE, FOLLOW (added after seeded C19a)
                G.REALPATH | G.MATCHBASE, G.REALPATH | G.GLOBSTAR, G.REALPATH | G.MATCHBASE | G.GLOBSTARLONG | G.FOLLOW,
                G.REALPATH | G.GLOBSTAR | G.FOLLOW]
    for p in BASE:
        for fl in fn_flags:
            for api in ('fnmatch.fnmatch', 'fnmatch.translate', 'fnmatch.filter', 'fnmatch.compile'):
                for isb in (False, True):
                    pool.append(dict(api=api, pats=[p], flags=fl, isb=isb))
        for fl in gl_flags:
            for api in ('glob.globmatch', 'glob.translate', 'glob.globfilter', 'glob.compile'):
                for isb in (False, True):
                    pool.append(dict(api=api, pats=[p], flags=fl, isb=isb))
    for i in range(n_distinct):                       # > 256 distinct keys: eviction
        pool.append(dict(api='fnmatch.fnmatch', pats=[f'p{i}*'], flags=0, isb=False))
        if i % 3 == 0:
            pool.append(dict(api='glob.globmatch', pats=[f'p{i}*', f'!p{i}x'], flags=G.NEGATE, isb=bool(i % 2)))
    for p in ('*.txt', 'a*', '**/a', '**', 'd/*', '*'):       # REALPATH matching on the fixed tree, also through its link
        for fl in (G.REALPATH | G.MATCHBASE, G.REALPATH | G.GLOBSTAR, G.REALPATH | G.GLOBSTAR | G.FOLLOW, G.REALPATH | G.MATCHBASE | G.GLOBSTARLONG,
                   G.REALPATH):
            for api in ('glob.globmatch-tree', 'glob.globfilter-tree', 'glob.compile-tree', 'pathlib.match-tree'):
                pool.append(dict(api=api, pats=[p], flags=fl, isb=False))
            pool.append(dict(api='glob.translate', pats=[p], flags=fl, isb=False))
    for p in ('*', '**', 'd/*', '*.txt', '**/a*'):      # globbing calls on a fixed tree
        for fl in (0, G.GLOBSTAR, G.GLOBSTAR | G.DOTGLOB, G.IGNORECASE):
            pool.append(dict(api='glob.glob-tree', pats=[p], flags=fl, isb=False))
    R.shuffle(pool)
    return pool


def make_tree(root: str) -> None:
    os.makedirs(os.path.join(root, 'd', 'e'))
    for f in ('a', 'a.txt', '.h', 'd/a', 'd/a.txt', 'd/e/a', 'B.TXT'):
        open(os.path.join(root, f), 'w').close()
    os.symlink('d', os.path.join(root, 'lnk'))


TREE_NAMES = ['a', 'a.txt', 'd/a', 'd/a.txt', 'd/e/a', 'lnk/a', 'lnk/a.txt', 'lnk/e/a', 'd', 'lnk', 'nope', 'B.TXT', '.h']


def _tree_call(w, c: dict, tree: str):
    G, P = w.G, w.P
    a, ps, fl = c['api'], c['pats'], c['flags']
    try:
        if a == 'glob.globmatch-tree':
            return {'kind': 'ok', 'bits': ''.join('1' if G.globmatch(n, ps, flags=fl, root_dir=tree) else '0' for n in TREE_NAMES)}
        if a == 'glob.globfilter-tree':
            r = G.globfilter(TREE_NAMES, ps, flags=fl, root_dir=tree)
            return {'kind': 'ok', 'bits': ''.join('1' if n in r else '0' for n in TREE_NAMES)}
        if a == 'glob.compile-tree':
            m = G.compile(ps, flags=fl)
            return {'kind': 'ok', 'bits': ''.join('1' if m.match(n, root_dir=tree) else '0' for n in TREE_NAMES),
                    'pos': [x.pattern for x in m._matcher._include]}
        if a == 'pathlib.match-tree':
            old = os.getcwd()
            os.chdir(tree)
            try:
                pfl = fl & ~(G.MATCHBASE)
                return {'kind': 'ok', 'bits': ''.join('1' if P.Path(n).match(ps, flags=pfl) else '0' for n in TREE_NAMES)}
            finally:
                os.chdir(old)
    except Exception as e:  # noqa: BLE001
        return {'kind': 'exc:' + type(e).__name__}
    return {'kind': 'bad-api'}


def evaluate(w: K.World, c: dict, tree: str):
    """run one call of the pool on the real code → JSON-able result"""
    if c['api'] == 'glob.glob-tree':
        try:
            return {'kind': 'ok', 'files': sorted(w.G.glob(c['pats'], flags=c['flags'], root_dir=tree))}
        except Exception as e:  # noqa: BLE001
            return {'kind': 'exc:' + type(e).__name__}
    if c['api'].endswith('-tree'):
        return _tree_call(w, c, tree)
    api = K.API_BY_NAME[c['api']]
    r = w.call(api, c['pats'], None, c['flags'], 1000, c['isb'], NAMES)
    return {'kind': r['kind'], 'pos': r.get('pos'), 'neg': r.get('neg'), 'bits': r.get('bits')}


def key_of(c: dict) -> str:
    return json.dumps([c['api'], c['pats'], c['flags'], c['isb']])


def reference(w: K.World, calls, tree: str) -> dict:
    """each distinct call evaluated with every cache cleared first"""
    import re
    ref = {}
    for c in calls:
        k = key_of(c)
        if k not in ref:
            w.W._compile.cache_clear()
            re.purge()
            ref[k] = evaluate(w, c, tree)
    return ref


FRESH = r'''
import json, sys
sys.path.insert(0, sys.argv[1])
import common, k4_lists as K, k9_cache as K9
w = K.World()
calls = json.load(open(sys.argv[2]))
out = {}
for c in calls:
    out[K9.key_of(c)] = K9.evaluate(w, c, sys.argv[3])
w.close()
json.dump(out, open(sys.argv[4], 'w'))
'''


ISOLATED = r'''
import json, os, sys
sys.path.insert(0, sys.argv[1])
calls = json.load(open(sys.argv[2]))
out = {}
for c in calls:                      # one forked child per call: wcmatch is imported in the child only
    r, wfd = os.pipe()
    pid = os.fork()
    if pid == 0:
        os.close(r)
        try:
            import common, k4_lists as K, k9_cache as K9
            w = K.World()
            res = K9.evaluate(w, c, sys.argv[3])
            w.close()
        except BaseException as e:
            res = {'kind': 'child-exc:' + type(e).__name__ + ':' + str(e)[:100]}
        os.write(wfd, json.dumps(res).encode())
        os._exit(0)
    os.close(wfd)
    data = b''
    while True:
        b = os.read(r, 65536)
        if not b:
            break
        data += b
    os.close(r)
    os.waitpid(pid, 0)
    out[json.dumps([c['api'], c['pats'], c['flags'], c['isb']])] = json.loads(data or b'{"kind": "child-died"}')
assert 'wcmatch' not in sys.modules
json.dump(out, open(sys.argv[4], 'w'))
'''


def isolated_interpreters(calls, tree: str, shards: int = 8) -> dict:
    """every call in its OWN fresh interpreter state (a forked child of a process that never imported
    wcmatch): no call history at all, not even the one a single fresh interpreter accumulates"""
    d = tempfile.mkdtemp(prefix='k9i-', dir='/tmp')
    try:
        seen, uniq = set(), []
        for c in calls:
            if key_of(c) not in seen:
                seen.add(key_of(c))
                uniq.append(c)
        procs = []
        for i in range(shards):
            part = uniq[i::shards]
            if not part:
                continue
            inp, outp = os.path.join(d, f'in{i}.json'), os.path.join(d, f'out{i}.json')
            json.dump(part, open(inp, 'w'))
            procs.append((subprocess.Popen([common.PY, '-c', ISOLATED, os.path.dirname(os.path.abspath(__file__)), inp, tree, outp],
                                           stdout=subprocess.PIPE, stderr=subprocess.PIPE, text=True,
                                           env={**os.environ, 'WCMATCH_REPO': common.REPO}), outp))
        res: dict = {}
        for pr, outp in procs:
            _o, e = pr.communicate(timeout=900)
            if pr.returncode != 0:
                raise RuntimeError('isolated interpreter shard failed: ' + e[-500:])
            res.update(json.load(open(outp)))
        return res
    finally:
        shutil.rmtree(d, ignore_errors=True)


def fresh_interpreter(calls, tree: str) -> dict:
    """the same calls, each distinct one once, in a new interpreter (nothing imported, nothing cached)"""
    d = tempfile.mkdtemp(prefix='k9-', dir='/tmp')
    try:
        inp, outp = os.path.join(d, 'in.json'), os.path.join(d, 'out.json')
        seen, uniq = set(), []
        for c in calls:
            if key_of(c) not in seen:
                seen.add(key_of(c))
                uniq.append(c)
        json.dump(uniq, open(inp, 'w'))
        r = subprocess.run([common.PY, '-c', FRESH, os.path.dirname(os.path.abspath(__file__)), inp, tree, outp],
                           capture_output=True, text=True, timeout=600, env={**os.environ, 'WCMATCH_REPO': common.REPO})
        if r.returncode != 0:
            raise RuntimeError('fresh interpreter failed: ' + r.stderr[-500:])
        return json.load(open(outp))
    finally:
        shutil.rmtree(d, ignore_errors=True)


def run_threads(w: K.World, calls, tree: str, nthreads: int = 8, per_thread: int = 300, R=None):
    """the pool on `nthreads` threads with a tiny switch interval; returns [(call, result)]"""
    old = sys.getswitchinterval()
    sys.setswitchinterval(1e-6)
    results = [[] for _ in range(nthreads)]
    errors = []
    seqs = [[R.choice(calls) for _ in range(per_thread)] for _ in range(nthreads)]
    start = threading.Barrier(nthreads)
    lock_free_worlds = w      # the World object is only read (module handles); pulls counter is not used here

    def work(i):
        try:
            start.wait()
            for c in seqs[i]:
                results[i].append((c, evaluate_threadsafe(lock_free_worlds, c, tree)))
        except BaseException as e:  # noqa: BLE001
            errors.append(repr(e))
    ts = [threading.Thread(target=work, args=(i,)) for i in range(nthreads)]
    try:
        for t in ts:
            t.start()
        for t in ts:
            t.join(600)
    finally:
        sys.setswitchinterval(old)
    return [x for r in results for x in r], errors


def evaluate_threadsafe(w: K.World, c: dict, tree: str):
    """like `evaluate` but without the shared bracex pull counter (direct API calls)"""
    F, G = w.F, w.G
    conv = (lambda s: s.encode('latin-1')) if c['isb'] else (lambda s: s)
    ps = [conv(p) for p in c['pats']]
    fl = c['flags']
    try:
        a = c['api']
        if a == 'glob.glob-tree':
            return {'kind': 'ok', 'files': sorted(G.glob(c['pats'], flags=fl, root_dir=tree))}
        if a == 'pathlib.match-tree':
            return {'kind': 'skip-threads(chdir)'}
        if a.endswith('-tree'):
            return _tree_call(w, c, tree)
        mod = F if a.startswith('fnmatch') else G
        out = {'kind': 'ok', 'pos': None, 'neg': None, 'bits': None}
        if a.endswith('.translate'):
            r = mod.translate(ps, flags=fl)
            out['pos'], out['neg'] = [K._s(x) for x in r[0]], [K._s(x) for x in r[1]]
        elif a.endswith('.compile'):
            m = mod.compile(ps, flags=fl)
            out['pos'] = [K._s(x.pattern) for x in m._matcher._include]
            out['neg'] = [K._s(x.pattern) for x in (m._matcher._exclude or ())]
            out['bits'] = ''.join('1' if m.match(conv(n)) else '0' for n in NAMES)
        elif a in ('fnmatch.fnmatch', 'glob.globmatch'):
            fn = F.fnmatch if a == 'fnmatch.fnmatch' else G.globmatch
            out['bits'] = ''.join('1' if fn(conv(n), ps, flags=fl) else '0' for n in NAMES)
        else:
            fn = F.filter if a == 'fnmatch.filter' else G.globfilter
            nn = [conv(n) for n in NAMES]
            r = fn(nn, ps, flags=fl)
            out['bits'] = ''.join('1' if n in r else '0' for n in nn)
        return out
    except Exception as e:  # noqa: BLE001
        return {'kind': 'exc:' + type(e).__name__}


def same(a: dict, b: dict) -> bool:
    keys = set(a) | set(b)
    return all(a.get(k) == b.get(k) for k in keys if a.get(k) is not None and b.get(k) is not None) and a['kind'] == b['kind']


# --------------------------------------------------------------------------------------------------
# the LRU model vs cache_info()

def lru_trace(w: K.World, drv, R, n_calls: int = 900, n_keys: int = 330):
    """direct `_compile(pattern, flags)` calls; hits/misses/currsize after every call vs the model"""
    W = w.W
    keys = []
    for i in range(n_keys):
        if i < 300:                                   # 100 texts x 3 flag words
            keys.append((f'k{i // 3}*', [0, W.DOTMATCH, W.EXTMATCH][i % 3]))
        else:                                         # the same texts as bytes
            keys.append((f'k{i - 300}*'.encode(), 0))
    seq = [R.randrange(n_keys) if R.random() < 0.7 else R.randrange(40) for _ in range(n_calls)]
    W._compile.cache_clear()
    tr = []
    ids = {}
    for s in seq:
        before = W._compile.cache_info()
        W._compile(*keys[s])
        after = W._compile.cache_info()
        tr.append('H' if after.hits == before.hits + 1 else 'M')
        ids.setdefault(keys[s], len(ids))
    size = W._compile.cache_info().currsize
    cap = W._compile.cache_parameters()['maxsize']
    o = drv.ask('lru', cap, *[ids[keys[s]] for s in seq])
    f = o.split(' ')
    return ''.join(tr), size, f[1], int(f[2]), len(ids)


# --------------------------------------------------------------------------------------------------
# compiled matcher objects

def object_checks(w: K.World, R, n: int, report):
    """eq / hash / pickle / copy / immutability / reuse of WcRegexp and WcMatcher; `report(what, inp, exp, obs)`"""
    F, G, W = w.F, w.G, w.W
    specs = []
    for p in BASE[:12]:
        for fl in (0, F.IGNORECASE, F.DOTMATCH, F.EXTMATCH):
            specs.append(('fnmatch', [p], fl))
        for fl in (0, G.GLOBSTAR, G.DOTGLOB, G.GLOBSTAR | G.FOLLOW, G.GLOBSTAR | G.REALPATH | G.FOLLOW, G.REALPATH | G.MATCHBASE):
            specs.append(('glob', [p, '!b*'], fl | G.NEGATE))
    R.shuffle(specs)
    specs = specs[:n]
    objs = []
    count = 0
    for modname, pats, fl in specs:
        mod = F if modname == 'fnmatch' else G
        for isb in (False, True):
            conv = (lambda s: s.encode('latin-1')) if isb else (lambda s: s)
            ps = [conv(p) for p in pats]
            m1 = mod.compile(ps, flags=fl)
            W._compile.cache_clear()
            m2 = mod.compile(ps, flags=fl)             # built again with a cold cache
            inner = m1._matcher
            names = [conv(x) for x in NAMES]
            beh = lambda m: ''.join('1' if m.match(x) else '0' for x in names)  # noqa: E731
            b1 = beh(m1)
            count += 1
            inp = {'module': modname, 'patterns': pats, 'flags': fl, 'bytes': isb}
            if not (m1 == m2 and hash(m1) == hash(m2) and not (m1 != m2)):
                report('two matchers compiled from the same patterns and flags are not equal / hash-equal', inp, True, False)
            if not (inner == m2._matcher and hash(inner) == hash(m2._matcher)):
                report('two WcRegexp objects compiled from the same patterns and flags are not equal / hash-equal', inp, True, False)
            for label, clone in (('pickle', pickle.loads(pickle.dumps(m1))), ('copy', copy.copy(m1)), ('deepcopy', copy.deepcopy(m1)),
                                 ('pickle-inner', pickle.loads(pickle.dumps(inner)))):
                other = clone if not label.endswith('inner') else None
                if other is not None:
                    if not (other == m1 and hash(other) == hash(m1) and beh(other) == b1):
                        report(f'{label} of a compiled matcher is not equal / behaves differently', inp, b1, beh(other))
                else:
                    if not (clone == inner and hash(clone) == hash(inner)):
                        report(f'{label} of a WcRegexp is not equal', inp, True, False)
                    if ''.join('1' if clone.match(x) else '0' for x in names) != b1:
                        report(f'{label} of a WcRegexp behaves differently', inp, b1, 'differs')
            for attr, target in (('_matcher', m1), ('_hash', m1), ('_include', inner), ('x', inner)):
                try:
                    setattr(target, attr, 1)
                    report(f'compiled object is mutable: setattr({attr}) succeeded', inp, 'AttributeError', 'no exception')
                except AttributeError:
                    pass
            if beh(m1) != b1 or [x for x in m1.filter(names)] != [x for x, b in zip(names, b1) if b == '1']:
                report('reusing a compiled matcher for further match/filter calls changed its answers', inp, b1, beh(m1))
            objs.append((inp, m1, b1, isb))
    # never equal when they accept different names (same string type)
    for i in range(len(objs)):
        for j in range(i + 1, min(i + 12, len(objs))):
            (i1, a, ba, t1), (i2, b, bb, t2) = objs[i], objs[j]
            count += 1
            if t1 == t2 and ba != bb and a == b:
                report('two matchers that accept different names compare equal', {'first': i1, 'second': i2}, 'not equal', 'equal')
            if a == b and hash(a) != hash(b):
                report('equal matchers with different hashes', {'first': i1, 'second': i2}, 'same hash', 'different')
    return count


# --------------------------------------------------------------------------------------------------
# histories in which the FILE SYSTEM changes between calls (added after seeded change C19c: the
# per-call symlink memo of `_Match` became process-wide).  "The answer depends only on the arguments
# and the file system": after each mutation every call is compared with the same call made alone in
# a fresh interpreter on the current state.

FS_CALL = r'''
import json, os, sys
sys.path.insert(0, sys.argv[1])
from wcmatch import glob as G
spec = json.loads(sys.argv[2])
os.chdir(spec['cwd'])
out = []
for api, names, pat, fl, mode in spec['calls']:
    kw = {}
    fd = None
    if mode == 'root_dir':
        kw['root_dir'] = spec['root']
    elif mode == 'dir_fd':
        fd = os.open(spec['root'], os.O_RDONLY | os.O_DIRECTORY)
        kw['dir_fd'] = fd
    try:
        if api == 'globmatch':
            out.append([bool(G.globmatch(n, pat, flags=fl, **kw)) for n in names])
        elif api == 'globfilter':
            out.append(sorted(G.globfilter(names, pat, flags=fl, **kw)))
        else:
            out.append(sorted(G.glob(pat, flags=fl, **kw)))
    finally:
        if fd is not None:
            os.close(fd)
print(json.dumps(out))
'''


def fs_change_histories(w, report) -> int:
    """returns the number of (state, call) comparisons"""
    G = w.G
    RP = G.REALPATH | G.GLOBSTAR
    names = ['d/x', 'd/s/x', 'e/x', 'd', 'x']
    calls = [('globmatch', names, '**/x', RP, 'root_dir'), ('globfilter', names, '**/x', RP, 'root_dir'),
             ('globmatch', names, 'd/**', RP, 'cwd'), ('globmatch', names, '**/x', RP, 'dir_fd'),
             ('globmatch', names, '**/s/**', RP | G.MATCHBASE, 'root_dir'), ('glob', [], '**/x', G.GLOBSTAR, 'root_dir'),
             ('globfilter', names, '*/x', G.REALPATH, 'dir_fd')]
    top = tempfile.mkdtemp(prefix='k9fs-', dir='/tmp')
    n = 0
    old = os.getcwd()
    try:
        A, B = os.path.join(top, 'A'), os.path.join(top, 'B')
        for r in (A, B):
            os.makedirs(os.path.join(r, 'e', 's'))
            open(os.path.join(r, 'e', 'x'), 'w').close()
            open(os.path.join(r, 'e', 's', 'x'), 'w').close()
        os.makedirs(os.path.join(A, 'd', 's'))                 # A: d is a real directory
        open(os.path.join(A, 'd', 'x'), 'w').close()
        open(os.path.join(A, 'd', 's', 'x'), 'w').close()
        os.symlink('e', os.path.join(B, 'd'))                  # B: d is a link to e

        def mutate_to_link():
            os.rename(os.path.join(A, 'd'), os.path.join(A, 'd_real'))
            os.symlink('e', os.path.join(A, 'd'))

        def mutate_to_dir():
            os.remove(os.path.join(A, 'd'))
            os.rename(os.path.join(A, 'd_real'), os.path.join(A, 'd'))
        compiled = {}
        steps = [('A: d is a directory', A, None), ('B (another root, same relative names): d is a link', B, None),
                 ('A again', A, None), ('A after d was replaced by a link to e', A, mutate_to_link),
                 ('B again', B, None), ('A after the link was replaced by the directory again', A, mutate_to_dir)]
        for label, root, mut in steps:
            if mut:
                mut()
            spec = {'root': root, 'cwd': root, 'calls': calls}
            r = subprocess.run([common.PY, '-c', FS_CALL, common.REPO, json.dumps(spec)], capture_output=True, text=True, timeout=120)
            if r.returncode != 0:
                raise RuntimeError('fresh interpreter failed: ' + r.stderr[-400:])
            fresh = json.loads(r.stdout.strip().split('\n')[-1])
            os.chdir(root)
            for k, (api, nms, pat, fl, mode) in enumerate(calls):
                kw = {}
                fd = None
                if mode == 'root_dir':
                    kw['root_dir'] = root
                elif mode == 'dir_fd':
                    fd = os.open(root, os.O_RDONLY | os.O_DIRECTORY)
                    kw['dir_fd'] = fd
                try:
                    if api == 'globmatch':
                        got = [bool(G.globmatch(x, pat, flags=fl, **kw)) for x in nms]
                        m = compiled.setdefault((pat, fl), G.compile(pat, flags=fl))       # a matcher object reused across states
                        got2 = [bool(m.match(x, **kw)) for x in nms]
                    elif api == 'globfilter':
                        got = sorted(G.globfilter(nms, pat, flags=fl, **kw))
                        got2 = got
                    else:
                        got = sorted(G.glob(pat, flags=fl, **kw))
                        got2 = got
                finally:
                    if fd is not None:
                        os.close(fd)
                n += 1
                for g, what in ((got, api), (got2, 'compiled matcher reused')):
                    if g != fresh[k]:
                        report(f'{what}: the answer on the current file system differs from the same call alone in a fresh interpreter '
                               f'(state: {label})', {'api': 'glob.' + api, 'pattern': pat, 'flags': fl, 'names': nms, 'root_mode': mode,
                                                   'history': [s[0] for s in steps[:steps.index((label, root, mut)) + 1]]}, fresh[k], g)
        return n
    finally:
        os.chdir(old)
        shutil.rmtree(top, ignore_errors=True)


# ------------------------------------------------------------------ the hidden file-system lookups of `~` (seeded change C19e)

TILDE_CALL = r'''
import json, os, sys
sys.path.insert(0, sys.argv[1])
from wcmatch import glob as G
spec = json.loads(sys.argv[2])
os.environ['HOME'] = spec['home']
os.chdir(spec['cwd'])
out = []
for api, arg, pat, fl in spec['calls']:
    if api == 'glob':
        out.append(sorted(G.glob(pat, flags=fl)))
    elif api == 'globmatch':
        out.append([bool(G.globmatch(a, pat, flags=fl)) for a in arg])
    elif api == 'translate':
        out.append(G.translate(pat, flags=fl)[0])
print(json.dumps(out))
'''


def tilde_histories(w, report) -> int:
    """`~` is replaced by the home directory exactly when that directory exists NOW: the same GLOBTILDE calls with $HOME
    missing -> created -> removed -> created elsewhere, in one warm process, each answer vs a fresh interpreter"""
    G = w.G
    top = tempfile.mkdtemp(prefix='k9home-', dir='/tmp')
    old_home, old_cwd = os.environ.get('HOME'), os.getcwd()
    n = 0
    try:
        cwd = os.path.join(top, 'cwd')
        os.makedirs(os.path.join(cwd, '~'))
        open(os.path.join(cwd, '~', 'lit.txt'), 'w').close()
        home = os.path.join(top, 'home')
        os.chdir(cwd)
        os.environ['HOME'] = home
        T = G.GLOBTILDE
        cands = [os.path.join(home, 'y.txt'), '~/lit.txt', os.path.join(home, 'z.py')]
        calls = [('glob', None, '~/*.txt', T), ('glob', None, ['~/*.txt', '!~/y*'], T | G.NEGATE), ('globmatch', cands, '~/*.txt', T | G.REALPATH),
                 ('globmatch', cands, '~/*.txt', T), ('translate', None, '~/*.txt', T), ('glob', None, '{~,~}/*.txt', T | G.BRACE),
                 ('glob', None, '~/*.py|~/*.txt', T | G.SPLIT)]

        def make_home():
            os.makedirs(home)
            for f in ('y.txt', 'z.py'):
                open(os.path.join(home, f), 'w').close()

        def drop_home():
            shutil.rmtree(home)
        steps = [('home directory missing', None), ('home directory created', make_home), ('home directory removed', drop_home),
                 ('home directory created again', make_home)]
        for label, mut in steps:
            if mut:
                mut()
            spec = {'home': home, 'cwd': cwd, 'calls': calls}
            r = subprocess.run([common.PY, '-c', TILDE_CALL, common.REPO, json.dumps(spec)], capture_output=True, text=True, timeout=120)
            if r.returncode != 0:
                raise RuntimeError('fresh interpreter failed: ' + r.stderr[-400:])
            fresh = json.loads(r.stdout.strip().split('\n')[-1])
            for (api, arg, pat, fl), want in zip(calls, fresh):
                for rep in range(2):
                    if api == 'glob':
                        got = sorted(G.glob(pat, flags=fl))
                    elif api == 'globmatch':
                        got = [bool(G.globmatch(a, pat, flags=fl)) for a in arg]
                    else:
                        got = G.translate(pat, flags=fl)[0]
                    n += 1
                    if got != want:
                        report(f'{api} with GLOBTILDE in a warm process ({label}) differs from the same call in a fresh interpreter',
                               {'api': api, 'pattern': pat, 'flags': fl, 'state': label, 'HOME': home}, want, got)
    finally:
        os.chdir(old_cwd)
        if old_home is None:
            os.environ.pop('HOME', None)
        else:
            os.environ['HOME'] = old_home
        shutil.rmtree(top, ignore_errors=True)
    return n


# ------------------------------------------------------------------ one dir_fd shared by several threads (seeded change C19f)

def shared_dirfd_threads(w, report, rounds: int = 6, nthreads: int = 8) -> int:
    """glob/iglob with the SAME dir_fd on several threads at once: every answer = the sequential answer"""
    G = w.G
    top = tempfile.mkdtemp(prefix='k9fd-', dir='/tmp')
    n = 0
    old = sys.getswitchinterval()
    try:
        os.makedirs(os.path.join(top, 'sub'))
        for k in range(700):
            open(os.path.join(top, f'f{k:04d}.txt' if k % 3 else f'g{k:04d}.py'), 'w').close()
        for k in range(40):
            open(os.path.join(top, 'sub', f's{k:02d}.txt'), 'w').close()
        fd = os.open(top, os.O_RDONLY | os.O_DIRECTORY)
        try:
            calls = [('*.txt', 0), ('*', 0), ('**/*.txt', G.GLOBSTAR), ('g*.py', 0), ('sub/*', 0), ('*/s0*.txt', 0)]
            seq = [sorted(G.glob(p, flags=fl, dir_fd=fd)) for p, fl in calls]
            ref = [sorted(G.glob(p, flags=fl, root_dir=top)) for p, fl in calls]
            if seq != ref:
                report('glob(dir_fd=) differs from glob(root_dir=)', {'api': 'glob', 'calls': calls}, [len(x) for x in ref], [len(x) for x in seq])
            sys.setswitchinterval(1e-6)
            for _ in range(rounds):
                res = [[] for _ in range(nthreads)]
                errs = []
                bar = threading.Barrier(nthreads)

                def work(i):
                    try:
                        bar.wait()
                        for j in range(len(calls)):
                            p, fl = calls[(i + j) % len(calls)]
                            res[i].append(((i + j) % len(calls), sorted(G.glob(p, flags=fl, dir_fd=fd))))
                    except BaseException as e:  # noqa: BLE001
                        errs.append(repr(e))
                ts = [threading.Thread(target=work, args=(i,)) for i in range(nthreads)]
                for t in ts:
                    t.start()
                for t in ts:
                    t.join(300)
                for e in errs:
                    report('a thread globbing through a shared dir_fd crashed', {'error': e}, 'no exception', e)
                for r in res:
                    for k, got in r:
                        n += 1
                        if got != seq[k]:
                            report('glob through a dir_fd shared by 8 threads differs from the sequential answer',
                                   {'api': 'glob', 'pattern': calls[k][0], 'flags': calls[k][1], 'dir_fd': 'shared', 'threads': nthreads},
                                   f'{len(seq[k])} paths', f'{len(got)} paths')
        finally:
            sys.setswitchinterval(old)
            os.close(fd)
    finally:
        shutil.rmtree(top, ignore_errors=True)
    return n

PARKED = r"""
import sys, os, json, resource
sys.path.insert(0, sys.argv[1])
import common
common.import_wcmatch()          # the library under test (WCMATCH_REPO) first on sys.path
from wcmatch import glob as G, pathlib as WP
top, outp = sys.argv[2], sys.argv[3]
soft, hard = resource.getrlimit(resource.RLIMIT_NOFILE)
calls = [('*.txt', 0), ('**', G.GLOBSTAR), ('*/*', 0), ('sub/*', 0), ('**/*.txt', G.GLOBSTAR)]
before = [G.glob(p, flags=fl, root_dir=top) for p, fl in calls]
resource.setrlimit(resource.RLIMIT_NOFILE, (64, hard))
parked, firsts = [], []
try:
    for k in range(150):
        p, fl = calls[k % len(calls)]
        it = G.iglob(p, flags=fl, root_dir=top) if k % 3 else (str(x) for x in WP.Path(top).glob(p, flags=fl))
        firsts.append(next(it, None))
        parked.append(it)
    after = [G.glob(p, flags=fl, root_dir=top) for p, fl in calls]
finally:
    resource.setrlimit(resource.RLIMIT_NOFILE, (soft, hard))
rest = [len(list(it)) for it in parked]
json.dump({'before': before, 'after': after, 'firsts_none': sum(1 for x in firsts if x is None), 'rest': rest,
           'fds_open': len(os.listdir('/proc/self/fd'))}, open(outp, 'w'))
"""


def parked_iterators(w, report) -> int:
    """150 half-consumed iglob / Path.glob iterators alive under a descriptor limit of 64, then further glob calls: every answer is the
    answer of the same call before (a glob call's answer does not depend on other, unfinished glob calls).  Run in a subprocess."""
    top = tempfile.mkdtemp(prefix='k9park-', dir='/tmp')
    d = tempfile.mkdtemp(prefix='k9-', dir='/tmp')
    try:
        os.makedirs(os.path.join(top, 'sub', 'deep'))
        for f in ('a.txt', 'b.txt', 'c.py', 'sub/s.txt', 'sub/t.py', 'sub/deep/u.txt'):
            open(os.path.join(top, f), 'w').close()
        outp = os.path.join(d, 'out.json')
        r = subprocess.run([common.PY, '-c', PARKED, os.path.dirname(os.path.abspath(__file__)), top, outp],
                           capture_output=True, text=True, timeout=300, env={**os.environ, 'WCMATCH_REPO': common.REPO})
        if r.returncode != 0:
            report('glob calls with parked iterators alive crashed', {'api': 'glob / iglob', 'stderr': r.stderr[-400:]}, 'answers', 'exception')
            return 1
        o = json.load(open(outp))
        if o['after'] != o['before']:
            report('glob answers change while 150 half-consumed iglob / Path.glob iterators are alive (descriptor limit 64)',
                   {'api': 'glob', 'history': '150 x next(iglob(p)) without exhausting, then glob(p)', 'patterns': ['*.txt', '**', '*/*', 'sub/*', '**/*.txt']},
                   [len(x) for x in o['before']], [len(x) for x in o['after']])
        if o['firsts_none']:
            report('an iglob call yields nothing while other half-consumed iterators are alive (descriptor limit 64)',
                   {'api': 'iglob', 'history': '150 x next(iglob(p))', 'empty_first_results': o['firsts_none']}, 0, o['firsts_none'])
        return 150 + 5
    finally:
        shutil.rmtree(top, ignore_errors=True)
        shutil.rmtree(d, ignore_errors=True)

MAGICQ = r"""
import sys, json
sys.path.insert(0, sys.argv[1])
import common
common.import_wcmatch()
from wcmatch import fnmatch as F, glob as G
order, outp = sys.argv[2], sys.argv[3]
pats = ['{a,b}', 'x{1..3}', 'a|b', '~x', '@(a)', '!a', '-a', '//server/sh{a,b}re/f', '//server/sh|re/f', 'c:/{a,b}', 'plain', 'a*', '//?/c:/x|y']
names = ['BRACE', 'SPLIT', 'GLOBTILDE', 'EXTMATCH', 'NEGATE', 'MINUSNEGATE']
qs = []
for mi, mod in enumerate((F, G)):
    for p in pats:
        for isb in (False, True):
            for plat in (0, mod.FORCEWIN, mod.FORCEUNIX):
                sets = [0] + [getattr(mod, n) for n in names if hasattr(mod, n)] + [mod.BRACE | mod.SPLIT]
                for fl in sets:
                    qs.append((mi, p, isb, fl | plat))
if order == 'rev':
    qs = qs[::-1]
elif order == 'plainfirst':
    qs = sorted(qs, key=lambda q: bin(q[3]).count('1'))
out = {}
for mi, p, isb, fl in qs:
    mod = (F, G)[mi]
    out[json.dumps([mi, p, isb, fl])] = mod.is_magic(p.encode() if isb else p, flags=fl)
json.dump(out, open(outp, 'w'))
"""


def is_magic_orders(w, report) -> int:
    """is_magic answers depend on the arguments only: the same ~2000 questions (fnmatch / glob, str / bytes, drive-shaped and plain patterns, each
    symbol flag, the three platform words) asked in three different orders in three fresh interpreters give the same answers."""
    d = tempfile.mkdtemp(prefix='k9m-', dir='/tmp')
    try:
        res = {}
        for order in ('fwd', 'rev', 'plainfirst'):
            outp = os.path.join(d, order + '.json')
            r = subprocess.run([common.PY, '-c', MAGICQ, os.path.dirname(os.path.abspath(__file__)), order, outp],
                               capture_output=True, text=True, timeout=300, env={**os.environ, 'WCMATCH_REPO': common.REPO})
            if r.returncode != 0:
                report('is_magic crashed', {'api': 'is_magic', 'order': order, 'stderr': r.stderr[-300:]}, 'answers', 'exception')
                return 1
            res[order] = json.load(open(outp))
        n = 0
        for k, v in res['fwd'].items():
            n += 1
            others = {o: res[o][k] for o in ('rev', 'plainfirst')}
            if any(x != v for x in others.values()):
                mi, p, isb, fl = json.loads(k)
                report(f"{('fnmatch', 'glob')[mi]}.is_magic({p!r}{' (bytes)' if isb else ''}, flags={fl:#x}) depends on the calls made before it",
                       {'api': ('fnmatch', 'glob')[mi] + '.is_magic', 'pattern': p, 'bytes': isb, 'flags': fl,
                        'history': 'the same questions in three orders, each order in a fresh interpreter'}, {'fwd': v}, others)
        return n * 3
    finally:
        shutil.rmtree(d, ignore_errors=True)

"""K3 (norm part): `util.norm_pattern` vs the Lean scanner model, and the C20 end-to-end search.

Driver command: `norm <isBytes> <normalize> <raw> <pattern> [name:<n>:<c|->]…`
The model is proved equal to the token specification (`Spec/RawChars`) on every token list that
meets the stated side conditions, so it also serves as the specification decoder in the search.
"""
from __future__ import annotations
import itertools
import os
import re
import shutil
import tempfile
import unicodedata
import warnings

import common
from framework import Failing

warnings.simplefilter('ignore')

ALPHA = '\\xuUN{}0178afn/*['
RE_NAME = re.compile(r'(?=\\N\{([^}]*)\})')   # overlapping: every `\N{` start is a candidate
CONFIGS = [(b, n, r) for b in (0, 1) for n in (0, 1) for r in (0, 1) if n or r]


def lookup_fields(p: str) -> str:
    out = []
    for n in set(RE_NAME.findall(p)):
        try:
            c = unicodedata.lookup(n)
            out.append(f'name:{common.enc(n)}:{common.enc(c)}')
        except KeyError:
            out.append(f'name:{common.enc(n)}:-')
    return (' ' + ' '.join(out)) if out else ''


def py_norm(util, p: str, isb: int, nz: int, raw: int) -> str:
    try:
        if isb:
            r = util.norm_pattern(p.encode('latin-1'), bool(nz), bool(raw)).decode('latin-1')
        else:
            r = util.norm_pattern(p, bool(nz), bool(raw))
        return 'ok ' + r
    except SyntaxError:
        return 'err SyntaxError'
    except KeyError:
        return 'err KeyError'
    except Exception as e:  # noqa: BLE001
        return 'exc ' + type(e).__name__


def model_norm(drv: common.Driver, cases: list[tuple[str, int, int, int]]) -> list[str]:
    lines = [f'norm {b} {n} {r} {common.enc(p)}{lookup_fields(p) if "N" in p else ""}' for p, b, n, r in cases]
    outs = drv.ask_many(lines)
    res = []
    for o in outs:
        f = o.split(' ')
        res.append('ok ' + common.dec(f[1]) if f[0] == 'ok' else o)
    return res


def _compare(sr, util, drv, cases, keep=3):
    outs = model_norm(drv, cases)
    for (p, b, n, r), mo in zip(cases, outs):
        sr.evaluations += 1
        if mo == 'err Surrogate':
            sr.histogram['lone surrogate (outside the model)'] = sr.histogram.get('lone surrogate (outside the model)', 0) + 1
            continue
        py = py_norm(util, p, b, n, r)
        kind = py.split(' ')[0] if not py.startswith('err') else py
        if py.startswith('ok'):
            kind = 'ok-changed' if py[3:] != p else 'ok-unchanged'
        sr.histogram[kind] = sr.histogram.get(kind, 0) + 1
        if py != mo:
            sr.disagree({'stream': 'K3-norm', 'pattern': p, 'bytes': b, 'normalize': n, 'raw': r, 'code': py, 'model': mo})
        elif len(sr.samples) < keep and py.startswith('ok') and py[3:] != p and len(p) > 4:
            sr.samples.append({'pattern': p, 'bytes': b, 'normalize': n, 'raw': r, 'result': py[3:]})


def stream_exhaustive(sr, drv, tier: str) -> None:
    from wcmatch import util
    maxlen = 5 if tier == 'quick' else 6
    sr.note = (f'util.norm_pattern vs Norm.normPattern on ALL strings over {ALPHA!r} up to length {maxlen} that contain a '
               'backslash (a string without one has only `/` matches, all identities; those are sampled 1 in 50) x '
               '{str,bytes} x {normalize} x {raw}; value or error kind')
    n = 0
    batch: list[tuple[str, int, int, int]] = []
    for L in range(0, maxlen + 1):
        for t in itertools.product(ALPHA, repeat=L):
            if '\\' not in t:
                n += 1
                if n % 50:
                    continue
            p = ''.join(t)
            sr.distinct += 1
            for b, nz, r in CONFIGS:
                batch.append((p, b, nz, r))
            if len(batch) >= 300000:
                _compare(sr, util, drv, batch)
                batch = []
    if batch:
        _compare(sr, util, drv, batch)


NAMES = ['DIGIT ONE', 'SOLIDUS', 'ASTERISK', 'LATIN SMALL LETTER A', 'REVERSE SOLIDUS', 'LEFT CURLY BRACKET',
         'nope', '', 'VERTICAL LINE', 'EXCLAMATION MARK', 'LEFT SQUARE BRACKET', 'x', '\\/', 'a}b']
PIECES = ['\\', '\\\\', '\\x', '\\u', '\\U', '\\N', '\\N{', '}', '{', '0', '1', '7', '8', '9', 'a', 'f', 'F', 'd', 'D', 'g',
          'n', 't', 'v', 'r', 'b', '/', '\\/', '*', '[', ']', '!', '|', '(', ')', '@', '-', '41', '2a', '5c', '2f', '7b',
          '0000', '0041', '00', 'd800', 'dfff', '0010ffff', '00110000', 'ffffffff', '\u0663', '\u0663\u0663', '\uff11', '\u0967',
          '\xe9', '\n', ' ', '.', '\\1', '\\12', '\\123', '\\1234', '\\400', '\\777', '\\8', '\\x41', '\\u0041',
          '\\U00000041', '\\x2a', '\\x5c', '\\x2f', '\\134', '\\57']


def random_pattern(R) -> str:
    parts = []
    for _ in range(R.randint(1, 7)):
        if R.random() < 0.12:
            parts.append('\\N{' + R.choice(NAMES) + '}')
        else:
            parts.append(R.choice(PIECES))
    return ''.join(parts)


def stream_random(sr, drv, tier: str) -> None:
    from wcmatch import util
    R = common.rng('K3-norm-random')
    n = 40000 if tier == 'quick' else 600000
    sr.note = (f'{n} random concatenations of escape prefixes, digit runs (ASCII and non-ASCII Unicode decimal digits), '
               'real and bogus \\N{{NAME}}, surrogate / above-0x10FFFF values, metacharacters; str and (when latin-1) bytes; '
               'all normalize/raw settings')
    cases = []
    seen = set()
    for _ in range(n):
        p = random_pattern(R)
        seen.add(p)
        latin = all(ord(c) < 256 for c in p)
        b, nz, r = R.choice(CONFIGS)
        if b and not latin:
            b = 0
        cases.append((p, b, nz, r))
    sr.distinct = len(seen)
    _compare(sr, util, drv, cases)


# --------------------------------------------------------------------------------------------------
# the property itself, end to end

def _names_for(decoded: str) -> list[str]:
    plain = decoded.replace('\\', '')
    out = {plain, plain[:1], decoded, 'a', 'A', '*', 'x41', 'n', 'S4', '\\', 'a/b', 'Ab', '\n', '1', 'J', '41', 'x'}
    out.discard('')
    return sorted(out)


def search_e2e(ck, sr, drv, tier: str) -> None:
    """match(name, p, RAWCHARS) must equal match(name, decode(p)) (no RAWCHARS), where decode is the
    *specification* decoder (token contract); a decode error must be raised
    by the real call as the same kind (SyntaxError / KeyError→LookupError)."""
    from wcmatch import fnmatch as F, glob as G, wcmatch as WM
    R = common.rng('C20-e2e')
    quick = tier == 'quick'
    pats: list[str] = []
    maxlen = 4 if quick else 5
    small = '\\x41N{}07a/*['
    for L in range(1, maxlen + 1):
        for t in itertools.product(small, repeat=L):
            if '\\' in t:
                pats.append(''.join(t))
    if quick:
        pats = R.sample(pats, 6000)
    else:
        pats = R.sample(pats, min(len(pats), 80000))
    pats += [random_pattern(R) for _ in range(4000 if quick else 60000)]
    pats += ['\\x41', '\\\\x41', '\\\\\\x41', '\\1234', '\\18', '\\x2a', '[\\x5d]', '@(\\x61|b)', '\\x7ba,b}', '\\N{ASTERISK}',
             '\\x\u0663\u0663', '\\u\u0663\u0663\u0663\u0663', '\\U0000\uff10\uff10\uff14\uff11', 'a\\x', '\\N{', '\\u12', '\\U0011FFFF']
    sr.note = ('fnmatch / globmatch / glob / WcMatch with RAWCHARS vs the same call on the spec-decoded pattern without '
               'RAWCHARS (str and bytes; flag sets: none, EXTMATCH, BRACE|SPLIT, NEGATE, FORCEWIN, FORCEUNIX); decode errors '
               'must surface as the same exception kind; without RAWCHARS the pattern must not be decoded')
    fn_sets = [0, F.EXTMATCH, F.BRACE | F.SPLIT, F.NEGATE, F.FORCEWIN, F.FORCEUNIX | F.DOTMATCH]
    tmp = tempfile.mkdtemp(prefix='c20-', dir='/tmp')
    try:
        os.makedirs(os.path.join(tmp, 'd'))
        for f in ('A', 'a', 'x41', 'n', 'S4', '1', 'J', 'Ab', 'd/A', 'd/x41', '41', '*', '\\x41'):
            open(os.path.join(tmp, f), 'w').close()
        cases = []
        for p in pats:
            latin = all(ord(c) < 256 for c in p)
            isb = 1 if (latin and R.random() < 0.3) else 0
            cases.append((p, isb, 0, 1))
        spec = model_norm(drv, cases)
        seen = set()
        for k, ((p, isb, _n, _r), sp) in enumerate(zip(cases, spec)):
            if sp == 'err Surrogate':
                continue
            seen.add((p, isb))
            conv = (lambda s: s.encode('latin-1')) if isb else (lambda s: s)
            pp = conv(p)
            fl = fn_sets[k % len(fn_sets)]
            decoded = sp[3:] if sp.startswith('ok') else None
            if isb and decoded is not None and not all(ord(c) < 256 for c in decoded):
                continue
            names = _names_for(decoded if decoded is not None else p)
            if isb:
                names = [n for n in names if all(ord(c) < 256 for c in n)]
            calls = [('fnmatch.fnmatch', lambda pat, extra: [F.fnmatch(conv(n), pat, flags=fl | extra) for n in names]),
                     ('glob.globmatch', lambda pat, extra: [G.globmatch(conv(n), pat, flags=fl | extra) for n in names])]
            if k % 5 == 0:
                calls.append(('glob.glob', lambda pat, extra: sorted(G.glob(pat, flags=(fl | extra), root_dir=conv(tmp)))))
            if k % 7 == 0:
                calls.append(('wcmatch.WcMatch', lambda pat, extra: sorted(
                    WM.WcMatch(conv(tmp), pat, flags=(WM.RECURSIVE | (fl & (F.EXTMATCH | F.BRACE)) | (WM.RAWCHARS if extra else 0))).match())))
            for api, call in calls:
                sr.evaluations += 1

                def run(pat, extra):
                    try:
                        with common.time_limit(3):
                            return ('ok', call(pat, extra))
                    except common.CallTimeout:
                        return ('timeout', None)
                    except SyntaxError:
                        return ('err', 'SyntaxError')
                    except LookupError:
                        return ('err', 'KeyError')
                    except Exception as e:  # noqa: BLE001
                        return ('exc', type(e).__name__)
                obs = run(pp, F.RAWCHARS)
                if decoded is not None:
                    exp = run(conv(decoded), 0)
                else:
                    exp = ('err', sp[4:])
                if 'timeout' in (obs[0], exp[0]):
                    sr.histogram['timeout (not a verdict)'] = sr.histogram.get('timeout (not a verdict)', 0) + 1
                    continue
                key = exp[0] if exp[0] != 'ok' else ('ok-some-match' if exp[1] and any(exp[1]) else 'ok-no-match')
                sr.histogram[key] = sr.histogram.get(key, 0) + 1
                if obs != exp:
                    kid = None
                    if fl & F.FORCEWIN and decoded is not None:
                        # single pass (decode and `\/` rewriting by one scanner) vs decode, then rewrite:
                        # a `\/` that only exists after decoding escapes the Windows normalisation
                        one = model_norm(drv, [(p, isb, 1, 1)])[0]
                        two = model_norm(drv, [(decoded, isb, 1, 0)])[0]
                        if one != two:
                            kid = 'KF-D21'
                    ck.report(Failing(
                        f'{api}: RAWCHARS result differs from the same call on the decoded pattern',
                        {'api': api, 'pattern': p, 'bytes': bool(isb), 'flags': fl, 'decoded_by_spec': decoded,
                         'names': names if api in ('fnmatch.fnmatch', 'glob.globmatch') else 'tree'},
                        repr(exp), repr(obs), site='wcmatch/util.py:21-59,81-128'), kid)
                    sr.histogram['FAIL'] = sr.histogram.get('FAIL', 0) + 1
                elif len(sr.samples) < 3 and exp[0] == 'ok' and exp[1] and any(exp[1]) and decoded != p:
                    sr.samples.append({'api': api, 'pattern': p, 'decoded': decoded, 'flags': fl, 'result': repr(exp[1])[:120]})
            # RAWCHARS off: nothing decoded (unix: norm_pattern is the identity)
            if k % 3 == 0:
                from wcmatch import util
                sr.evaluations += 1
                r = util.norm_pattern(pp, False, False)
                if r != pp:
                    ck.report(Failing('norm_pattern without RAWCHARS/normalize changed the pattern',
                                      {'pattern': p, 'bytes': bool(isb)}, p, repr(r)))
        sr.distinct = len(seen)
    finally:
        shutil.rmtree(tmp, ignore_errors=True)


# --------------------------------------------------------------------------------------------------
# decoded metacharacters through EVERY entry point (added after seeded change C20b: glob() decoded
# after brace/split expansion, every other entry point was still right)

_META_NAMES = {'{': 'LEFT CURLY BRACKET', '}': 'RIGHT CURLY BRACKET', ',': 'COMMA', '|': 'VERTICAL LINE', '*': 'ASTERISK',
               '?': 'QUESTION MARK', '[': 'LEFT SQUARE BRACKET', ']': 'RIGHT SQUARE BRACKET', '(': 'LEFT PARENTHESIS',
               ')': 'RIGHT PARENTHESIS', '!': 'EXCLAMATION MARK', '-': 'HYPHEN-MINUS', '@': 'COMMERCIAL AT', '+': 'PLUS SIGN'}


def _spellings(ch: str, isb: bool) -> list[str]:
    o = ord(ch)
    sp = ['\\x%02x' % o, '\\%03o' % o]
    if not isb:
        sp += ['\\u%04x' % o, '\\U%08x' % o, '\\N{%s}' % _META_NAMES[ch]]
    return sp


def search_meta_entry_points(ck, sr, drv, tier: str) -> None:
    """For decoded patterns D built around one metacharacter each, and every spelling E of that
    metacharacter as an escape: api(E-pattern, flags|RAWCHARS) == api(D, flags) for EVERY entry point
    (fnmatch / filter / translate / compile, globmatch / globfilter / glob.translate / glob / iglob /
    glob.compile, WcMatch, pathlib glob / rglob / match / globmatch) — decoding precedes brace
    expansion, splitting, sign detection and parsing everywhere."""
    from wcmatch import fnmatch as F, glob as G, wcmatch as WM, pathlib as WP
    sr.note = search_meta_entry_points.__doc__.replace('\n    ', ' ')
    # (decoded template with the metacharacters to spell, flags that make them magic)
    templates = [('{a,b}', '{', F.BRACE), ('{a,b}', ',', F.BRACE), ('{a,b}', '}', F.BRACE), ('x{a,b}', '{', F.BRACE | F.SPLIT),
                 ('a|b', '|', F.SPLIT), ('x|a|*b', '|', F.SPLIT | F.BRACE), ('*', '*', 0), ('?', '?', 0), ('a?', '?', F.SPLIT),
                 ('[ab]', '[', 0), ('[ab]', ']', 0), ('@(a|b)', '(', F.EXTMATCH), ('@(a|b)', '@', F.EXTMATCH),
                 ('@(a|b)', '|', F.EXTMATCH), ('+(a)', '+', F.EXTMATCH), ('!(a)', '!', F.EXTMATCH), ('!a', '!', F.NEGATE),
                 ('-a', '-', F.NEGATE | F.MINUSNEGATE), ('*|!a', '!', F.NEGATE | F.SPLIT), ('d/{A,x41}', '{', F.BRACE),
                 ('d/*', '*', 0), ('**/A', '*', G.GLOBSTAR)]
    tmp = tempfile.mkdtemp(prefix='c20m-', dir='/tmp')
    names = ['a', 'b', 'ab', 'A', 'x', 'xa', 'xb', '{a,b}', 'a|b', '*', '?', 'a?', '[ab]', '@(a|b)', '+(a)', '!(a)', '!a', '-a',
             'd/A', 'd/x41', 'd/{A,x41}', 'x{a,b}', 'aa', 'bb']
    try:
        os.makedirs(os.path.join(tmp, 'd'))
        for f in names:
            if '/' in f and not f.startswith('d/'):
                continue
            try:
                open(os.path.join(tmp, f), 'w').close()
            except OSError:
                pass
        nfail = 0
        for isb in (False, True):
            conv = (lambda s: s.encode('latin-1')) if isb else (lambda s: s)
            root = conv(tmp)
            for dec, ch, fl in templates:
                for sp in _spellings(ch, isb):
                    for pos in range(len(dec)):
                        if dec[pos] != ch:
                            continue
                        esc = dec[:pos] + sp + dec[pos + 1:]
                        # the specification's decoder must agree that esc decodes to dec
                        m = model_norm(drv, [(esc, 1 if isb else 0, 0, 1)])[0]
                        if m != 'ok ' + dec:
                            continue
                        gfl = fl | (G.GLOBSTAR if '**' in dec else 0)
                        apis = [
                            ('fnmatch.fnmatch', lambda p, x: [F.fnmatch(conv(n), p, flags=fl | x) for n in names]),
                            ('fnmatch.filter', lambda p, x: F.filter([conv(n) for n in names], p, flags=fl | x)),
                            ('fnmatch.translate', lambda p, x: F.translate(p, flags=fl | x)),
                            ('fnmatch.compile', lambda p, x: [F.compile(p, flags=fl | x).match(conv(n)) for n in names]),
                            ('glob.globmatch', lambda p, x: [G.globmatch(conv(n), p, flags=gfl | x) for n in names]),
                            ('glob.globfilter', lambda p, x: G.globfilter([conv(n) for n in names], p, flags=gfl | x)),
                            ('glob.translate', lambda p, x: G.translate(p, flags=gfl | x)),
                            ('glob.compile', lambda p, x: [G.compile(p, flags=gfl | x).match(conv(n)) for n in names]),
                            ('glob.glob', lambda p, x: sorted(G.glob(p, flags=gfl | x, root_dir=root))),
                            ('glob.iglob', lambda p, x: sorted(G.iglob(p, flags=gfl | x, root_dir=root))),
                            ('glob.glob[list]', lambda p, x: sorted(G.glob([p], flags=gfl | x, root_dir=root))),
                            ('wcmatch.WcMatch', lambda p, x: sorted(WM.WcMatch(root, p, flags=WM.RECURSIVE | (fl & (F.EXTMATCH | F.BRACE | F.MINUSNEGATE)) | (WM.RAWCHARS if x else 0)).match())),
                            ('wcmatch.WcMatch[exclude]', lambda p, x: sorted(WM.WcMatch(root, conv('*'), p, flags=WM.RECURSIVE | (fl & (F.EXTMATCH | F.BRACE | F.MINUSNEGATE)) | (WM.RAWCHARS if x else 0)).match())),
                        ]
                        # the same pattern as an exclude= argument (decoding must happen there too: seeded change C20d)
                        xfl = fl & ~(F.NEGATE | F.MINUSNEGATE)
                        xgfl = gfl & ~(F.NEGATE | F.MINUSNEGATE)
                        star = conv('*')
                        apis += [
                            ('fnmatch.fnmatch[exclude=]', lambda p, x: [F.fnmatch(conv(n), star, flags=xfl | x, exclude=p) for n in names]),
                            ('fnmatch.filter[exclude=]', lambda p, x: F.filter([conv(n) for n in names], star, flags=xfl | x, exclude=p)),
                            ('fnmatch.compile[exclude=]', lambda p, x: [F.compile(star, flags=xfl | x, exclude=p).match(conv(n)) for n in names]),
                            ('fnmatch.translate[exclude=]', lambda p, x: F.translate(star, flags=xfl | x, exclude=p)),
                            ('glob.globmatch[exclude=]', lambda p, x: [G.globmatch(conv(n), star, flags=xgfl | x, exclude=p) for n in names]),
                            ('glob.globfilter[exclude=]', lambda p, x: G.globfilter([conv(n) for n in names], star, flags=xgfl | x, exclude=p)),
                            ('glob.compile[exclude=]', lambda p, x: [G.compile(star, flags=xgfl | x, exclude=p).match(conv(n)) for n in names]),
                            ('glob.glob[exclude=]', lambda p, x: sorted(G.glob(star, flags=xgfl | x, root_dir=root, exclude=p))),
                        ]
                        if not isb:
                            pfl = gfl & ~(F.FORCEWIN | F.FORCEUNIX)
                            apis += [
                                ('pathlib.Path.glob', lambda p, x: sorted(str(q) for q in WP.Path(tmp).glob(p, flags=pfl | x))),
                                ('pathlib.Path.rglob', lambda p, x: sorted(str(q) for q in WP.Path(tmp).rglob(p, flags=pfl | x))),
                                ('pathlib.PurePath.match', lambda p, x: [WP.PurePosixPath(n).match(p, flags=pfl | x) for n in names]),
                                ('pathlib.PurePath.globmatch', lambda p, x: [WP.PurePosixPath(n).globmatch(p, flags=pfl | x) for n in names]),
                            ]
                        for api, call in apis:
                            sr.evaluations += 1

                            def run(pat, extra):
                                try:
                                    with common.time_limit(5):
                                        return ('ok', call(pat, extra))
                                except common.CallTimeout:
                                    return ('timeout', None)
                                except Exception as e:  # noqa: BLE001
                                    return ('exc', type(e).__name__)
                            obs = run(conv(esc), F.RAWCHARS)
                            exp = run(conv(dec), 0)
                            if 'timeout' in (obs[0], exp[0]):
                                continue
                            k = api
                            sr.histogram[k] = sr.histogram.get(k, 0) + 1
                            if obs != exp:
                                nfail += 1
                                ck.report(Failing(
                                    f'{api}: an escape that decodes to the metacharacter {ch!r} does not act as that metacharacter',
                                    {'api': api, 'pattern': esc, 'bytes': isb, 'flags': fl, 'decoded_by_spec': dec,
                                     'names': names if 'match' in api or 'filter' in api or 'compile' in api else 'tree'},
                                    repr(exp)[:600], repr(obs)[:600], site='norm_pattern call sites: _wcparse.py translate/compile_pattern, glob.py Glob._iter_patterns'))
                            elif len(sr.samples) < 3 and exp[0] == 'ok' and exp[1]:
                                sr.samples.append({'api': api, 'pattern': esc, 'decoded': dec, 'flags': fl, 'result': repr(exp[1])[:100]})
                        sr.distinct += 1
    finally:
        shutil.rmtree(tmp, ignore_errors=True)

def search_incomplete_entry_points(ck, sr) -> None:
    """An incomplete escape (`\\x4`, `\\u12`, `\\U0001`, `\\N{`, `\\N{A`, `\\x` at the end) raises SyntaxError under RAWCHARS at EVERY entry point
    and in EVERY pattern role — also a role whose compiled pattern would never be consulted (added after seeded change C20h: WcMatch
    skipped compiling the folder-exclude pattern without RECURSIVE, so a malformed one was accepted silently)."""
    from framework import Failing
    from wcmatch import fnmatch as F, glob as G, wcmatch as WM, pathlib as WP
    sr.note = search_incomplete_entry_points.__doc__.replace('\n    ', ' ')
    bad = ['\\x4', '\\u12', '\\U0001', '\\N{', '\\N{A', 'a\\x', '*.t\\u00', '\\x4|b', '{a,\\x1}']
    tmp = tempfile.mkdtemp(prefix='c20i-', dir='/tmp')
    try:
        open(os.path.join(tmp, 'a.txt'), 'w').close()
        os.makedirs(os.path.join(tmp, 'd'))
        for b in bad:
            for isb in (False, True):
                if isb and ('\\u' in b or '\\U' in b or '\\N' in b):
                    continue            # bytes patterns have no \u \U \N escapes
                conv = (lambda x: x.encode('latin-1')) if isb else (lambda x: x)
                root = conv(tmp)
                pb, ok = conv(b), conv('*')
                calls = [
                    ('fnmatch.fnmatch', lambda: F.fnmatch(conv('a'), pb, flags=F.RAWCHARS | F.SPLIT | F.BRACE)),
                    ('fnmatch.fnmatch[exclude]', lambda: F.fnmatch(conv('a'), ok, flags=F.RAWCHARS, exclude=pb)),
                    ('fnmatch.filter', lambda: F.filter([], pb, flags=F.RAWCHARS)),
                    ('fnmatch.translate', lambda: F.translate(pb, flags=F.RAWCHARS)),
                    ('fnmatch.compile[exclude]', lambda: F.compile(ok, flags=F.RAWCHARS, exclude=pb)),
                    ('glob.globmatch', lambda: G.globmatch(conv('a'), pb, flags=G.RAWCHARS)),
                    ('glob.globfilter[exclude]', lambda: G.globfilter([conv('a')], ok, flags=G.RAWCHARS, exclude=pb)),
                    ('glob.translate', lambda: G.translate(pb, flags=G.RAWCHARS)),
                    ('glob.glob', lambda: G.glob(pb, flags=G.RAWCHARS, root_dir=root)),
                    ('glob.iglob[exclude]', lambda: list(G.iglob(ok, flags=G.RAWCHARS, root_dir=root, exclude=pb))),
                    ('glob.glob[second of a list]', lambda: G.glob([ok, pb], flags=G.RAWCHARS, root_dir=root)),
                ]
                for wfl in (0, WM.RECURSIVE, WM.RECURSIVE | WM.PATHNAME, WM.FILEPATHNAME, WM.DIRPATHNAME, WM.HIDDEN | WM.SYMLINKS):
                    calls.append((f'wcmatch.WcMatch[file pattern, flags {wfl}]', lambda wfl=wfl: WM.WcMatch(root, pb, flags=wfl | WM.RAWCHARS).match()))
                    calls.append((f'wcmatch.WcMatch[exclude pattern, flags {wfl}]', lambda wfl=wfl: WM.WcMatch(root, ok, pb, flags=wfl | WM.RAWCHARS).match()))
                if not isb:
                    calls += [('pathlib.Path.glob', lambda: list(WP.Path(tmp).glob(b, flags=WP.RAWCHARS))),
                              ('pathlib.Path.rglob[exclude]', lambda: list(WP.Path(tmp).rglob('*', flags=WP.RAWCHARS, exclude=b))),
                              ('pathlib.PurePath.match', lambda: WP.PurePath('a').match(b, flags=WP.RAWCHARS)),
                              ('pathlib.PurePath.globmatch[exclude]', lambda: WP.PurePath('a').globmatch('*', flags=WP.RAWCHARS, exclude=b))]
                for api, call in calls:
                    sr.evaluations += 1
                    try:
                        out = call()
                        ck.report(Failing(f'{api}: the incomplete escape {b!r} ({"bytes" if isb else "str"}) under RAWCHARS was accepted',
                                          {'api': api, 'pattern': b, 'bytes': isb}, 'SyntaxError', repr(out)[:120]), None)
                        sr.histogram['accepted'] = sr.histogram.get('accepted', 0) + 1
                    except SyntaxError:
                        sr.histogram['SyntaxError'] = sr.histogram.get('SyntaxError', 0) + 1
                    except Exception as ex:  # noqa: BLE001
                        ck.report(Failing(f'{api}: the incomplete escape {b!r} under RAWCHARS raised {type(ex).__name__}, not SyntaxError',
                                          {'api': api, 'pattern': b, 'bytes': isb}, 'SyntaxError', f'{type(ex).__name__}: {ex}'[:160]), None)
        sr.distinct = len(bad)
    finally:
        shutil.rmtree(tmp, ignore_errors=True)

def search_decoded_collides(ck, sr) -> None:
    """Pattern LISTS under RAWCHARS in which an earlier pattern decodes, character for character, to the RAW spelling of a later one
    (`[r'\\x5cx41', r'\\x41']`): every member is decoded on its own and the list means the list of the decoded members (added after seeded
    change C20j: the list loops skipped an input pattern whose raw text was already among the decoded texts seen)."""
    from framework import Failing
    from wcmatch import fnmatch as F, glob as G
    sr.note = search_decoded_collides.__doc__.replace('\n    ', ' ')
    laters = ['\\x41', '\\101', '\\u0041', '\\x2a', '\\x', '\\u12', '\\N{DIGIT ONE}', '\\x5b\\x61\\x5d']
    bs = ['\\x5c', '\\134', '\\u005c']
    names = ['A', 'x41', '\\x41', '101', '*', 'b', 'ab', '1', 'a', '\\101', 'u0041', '\\u0041']
    for later in laters:
        for b in bs:
            earlier = b + later[1:]          # decodes to `later` as text: a literal backslash followed by the rest
            for order in ((earlier, later), (later, earlier), (earlier, 'zz', later)):
                for mod, call in ((F, 'fnmatch'), (G, 'globmatch'), (F, 'filter'), (F, 'translate')):
                    sr.evaluations += 1

                    def run(pats, fl):
                        try:
                            if call == 'fnmatch':
                                return [bool(F.fnmatch(n, pats, flags=fl)) for n in names]
                            if call == 'globmatch':
                                return [bool(G.globmatch(n, pats, flags=fl)) for n in names]
                            if call == 'filter':
                                return F.filter(names, pats, flags=fl)
                            return F.translate(pats, flags=fl)
                        except SyntaxError:
                            return 'SyntaxError'
                        except LookupError:
                            return 'LookupError'
                    got = run(list(order), mod.RAWCHARS | mod.FORCEUNIX)
                    # the same list, every member decoded on its own through the SINGLE-pattern path, then passed without RAWCHARS
                    singles = []
                    err = None
                    for q in order:
                        try:
                            t_ = F.translate(q, flags=F.RAWCHARS | F.FORCEUNIX)
                        except SyntaxError:
                            err = 'SyntaxError'
                            break
                        except LookupError:
                            err = 'LookupError'
                            break
                        singles.append(t_[0])
                    if call == 'translate':
                        want = err or ([x for s_ in singles for x in s_], [])
                        if not err:
                            seen_, flat = set(), []
                            for x in want[0]:
                                if x not in seen_:
                                    seen_.add(x)
                                    flat.append(x)
                            want = (flat, [])
                    else:
                        import re as _re
                        if err:
                            want = err
                        else:
                            acc = [any(_re.fullmatch(r_, n) for s_ in singles for r_ in s_) for n in names]
                            want = acc if call != 'filter' else [n for n, a in zip(names, acc) if a]
                    if got != want:
                        ck.report(Failing(f'{mod.__name__.split(".")[-1]}.{call}: the RAWCHARS list {list(order)} does not mean the list of its decoded members',
                                          {'api': f'{mod.__name__}.{call}', 'patterns': list(order), 'flags': 'RAWCHARS', 'names': names}, str(want)[:300], str(got)[:300]), None)
                        sr.histogram['FAIL'] = sr.histogram.get('FAIL', 0) + 1
                    else:
                        sr.histogram['holds'] = sr.histogram.get('holds', 0) + 1
    sr.distinct = len(laters) * len(bs)

"""K8 — wcmatch.pathlib against the Lean model (`Model/Pathlib.lean`) and against the property.

Two kinds of comparison live here (DESIGN §3.2 / §4):

* correspondence (model vs code, `k8_*` functions): `_translate_flags` on flag words, the call
  each method makes into `wcmatch.glob` (flag word + root_dir / filename, recorded by a proxy
  installed as `wcmatch.pathlib.glob`), `Glob._pathlib_norm` / `_format_path` on candidate
  streams.  A disagreement there is a broken tie, not a violation.
* search (property vs code, `search_*` functions): the public pathlib methods against an
  independent formulation through the public `wcmatch.glob` API on generated REAL trees.

Trees: files, directories, hidden entries, symlinks to files / directories / nowhere, never a
cycle; the `exotic` variant adds names containing a backslash or a newline.  The description of
a tree is obtained by querying the OS, not from the generator's intent.
"""
from __future__ import annotations
import os
import re
import shutil
import tempfile
import types

import common
import gen
from framework import Failing

CLS_CODE = {'PurePosixPath': 0, 'PureWindowsPath': 1, 'PosixPath': 2, 'WindowsPath': 3}

# the flags of the property's quantifier (+ MATCHBASE, BRACE, SPLIT asked for by the task)
PUBLIC = ['GLOBSTAR', 'DOTGLOB', 'EXTGLOB', 'FOLLOW', 'GLOBSTARLONG', 'NODIR', 'NEGATE', 'SCANDOTDIR', 'NOUNIQUE',
          'REALPATH', 'MATCHBASE', 'BRACE', 'SPLIT']
# every distinct public flag value wcmatch.pathlib exports
ALL_PUBLIC = ['CASE', 'IGNORECASE', 'RAWCHARS', 'DOTGLOB', 'EXTGLOB', 'GLOBSTAR', 'NEGATE', 'BRACE', 'MINUSNEGATE',
              'REALPATH', 'FOLLOW', 'SPLIT', 'MATCHBASE', 'NODIR', 'NEGATEALL', 'NOUNIQUE', 'NODOTDIR', 'GLOBSTARLONG',
              'SCANDOTDIR']


def mods():
    common.import_wcmatch()
    from wcmatch import glob as G, pathlib as P, _wcparse as W
    return G, P, W


def flag_names(P, fl: int) -> list[str]:
    out = [n for n in ALL_PUBLIC if fl & getattr(P, n)]
    for n, v in (('FORCEWIN', P._FORCEWIN), ('FORCEUNIX', P._FORCEUNIX), ('_EXTMATCHBASE', P._EXTMATCHBASE),
                 ('_NOABSOLUTE', P._NOABSOLUTE), ('_PATHLIB', P._PATHLIB)):
        if fl & v:
            out.append(n)
    return out


# --------------------------------------------------------------------------------- trees

NAMES = ['a', 'b', 'A', '.h', 'a.b', 'ab', 'd', '.hd', 'c.txt']
EXOTIC = ['a\\b', 'a\\.\\b', 'x\\', '.\\a', 'a\n', 'a\\.']


def _has_dirlink(path: str) -> bool:
    for dp, dn, fn in os.walk(path, followlinks=False):
        for n in dn + fn:
            q = os.path.join(dp, n)
            if os.path.islink(q) and os.path.isdir(q):
                return True
    return False


def build_tree(R, exotic: bool = False, maxent: int = 12) -> str:
    """A real tree under /tmp.  Links are created after everything else; a link to a directory T
    is made only if T is not an ancestor of the link and T's subtree holds no directory link —
    so following links always terminates (no cycles)."""
    top = tempfile.mkdtemp(prefix='c16-', dir='/tmp')
    root = os.path.join(top, 'w', 'r')       # '..' and '../..' from the root stay inside our own directory
    os.makedirs(root)
    names = NAMES + (EXOTIC if exotic else [])
    dirs = ['']
    plain: list[str] = []
    for _ in range(R.randint(3, maxent)):
        parent = R.choice(dirs)
        if parent.count('/') >= 2 and R.random() < 0.7:
            parent = ''
        name = R.choice(names)
        rel = os.path.join(parent, name) if parent else name
        full = os.path.join(root, rel)
        if os.path.lexists(full):
            continue
        if R.random() < 0.45:
            os.mkdir(full)
            dirs.append(rel)
        else:
            open(full, 'w').close()
        plain.append(rel)
    for _ in range(R.randint(0, 3)):
        parent = R.choice(dirs)
        name = R.choice(['lf', 'ld', '.l', 'dang', 'l2'])
        rel = os.path.join(parent, name) if parent else name
        full = os.path.join(root, rel)
        if os.path.lexists(full):
            continue
        r = R.random()
        if r < 0.15 or not plain:
            os.symlink('nowhere', full)
            continue
        tgt = R.choice(plain)
        tfull = os.path.join(root, tgt)
        if os.path.isdir(tfull):
            anc = (parent + '/').startswith(tgt + '/') or parent == tgt
            if anc or _has_dirlink(tfull):
                continue
        os.symlink(os.path.relpath(tfull, os.path.join(root, parent)), full)
    return root


def remove_tree(root: str) -> None:
    top = os.path.dirname(os.path.dirname(root))
    if os.path.basename(os.path.dirname(root)) == 'w' and os.path.basename(top).startswith('c16-'):
        shutil.rmtree(top, ignore_errors=True)
    else:
        shutil.rmtree(root, ignore_errors=True)


def entries(root: str) -> list[str]:
    """every entry of the tree, as a '/'-relative path (no following of links); '' = the root"""
    out = ['']
    for dp, dn, fn in os.walk(root, followlinks=False):
        for n in sorted(dn + fn):
            out.append(os.path.relpath(os.path.join(dp, n), root))
    return out


def entries_through_links(root: str, ents: list[str], depth: int = 2) -> list[str]:
    """paths that name an entry of the tree THROUGH a symlinked directory (`ld/a`, `ld/a/b`): not
    produced by a no-follow walk, but path objects the properties quantify over (added after seeded
    change C16a: the implicit `**` prefix of match() lost its symlink check when GLOBSTAR was off)"""
    out: list[str] = []

    def below(rel: str, d: int) -> None:
        full = os.path.join(root, rel)
        try:
            names = sorted(os.listdir(full))
        except OSError:
            return
        for n in names[:6]:
            r = rel + '/' + n
            out.append(r)
            if d > 1 and os.path.isdir(os.path.join(root, r)):
                below(r, d - 1)
    for e in ents:
        if e and os.path.islink(os.path.join(root, e)) and os.path.isdir(os.path.join(root, e)):
            below(e, depth)
    return out[:40]


def describe(root: str) -> list[list[str]]:
    d = []
    for e in entries(root):
        f = os.path.join(root, e) if e else root
        if os.path.islink(f):
            k = 'link->' + os.readlink(f) + (' (dir)' if os.path.isdir(f) else ' (file)' if os.path.exists(f) else ' (dangling)')
        elif os.path.isdir(f):
            k = 'dir'
        else:
            k = 'file'
        d.append([e, k])
    return d


# ------------------------------------------------------------------------------ patterns

REL_FIXED = ['*', '**', '***', '**/', '**/*', '*/', '*/*', './*', '.', '..', './', '../', '../*', 'a', 'a/', 'd/*', 'd/**',
             '.*', '**/.h', '**/a', '*/..', '*/.', './**', 'a/./b', 'd/./*', 'd//a', '?', '[ab]', 'a*', '*.b', '@(a|b)',
             '!(a)', '*(a|b)', '{a,b}', '{a,a/}', '{*,*/}', 'a|b', '*|*/', '*|**', '!a', '!*/', '!**/a', 'd/a|!d/*',
             '**/**', '**/**/a', '***/a', '**/d/**', '.h', '.hd/*', '**/.*', '\\a', '[.]h', 'lf', 'ld/*', 'ld/**', '**/lf',
             '', 'a/b/../b', '\\/a', '~']
ABS_FIXED = ['/', '/*', '/a', '//a', '/**', '/tmp', '{/a,b}', 'a|/b', '!/a', '*|!/a', '/./a']


def gen_pattern(R, ents: list[str], root: str):
    """(patterns, exclude) — patterns is a str or a list of str"""
    r = R.random()
    if r < 0.40:
        p = R.choice(REL_FIXED)
    elif r < 0.60:
        p = gen.gen_path_pattern(R)
        if p.startswith('/') and R.random() < 0.5:
            p = p.lstrip('/')
    elif r < 0.75:
        e = R.choice(ents) or '.'
        k = R.random()
        parts = e.split('/')
        if k < 0.3:
            p = e
        elif k < 0.45:
            p = e + '/'
        elif k < 0.6:
            p = './' + e
        elif k < 0.8:
            p = '/'.join(parts[R.randrange(len(parts)):])           # a suffix (rglob / match)
        else:
            p = '/'.join(parts[:-1] + ['*'])
    elif r < 0.87:
        p = R.choice(ABS_FIXED + [root + '/*', root, root + '/**'])
    else:
        p = [R.choice(REL_FIXED), R.choice(REL_FIXED + ABS_FIXED[:3])]
    ex = None
    if R.random() < 0.08:
        ex = R.choice(['a', '*/', '**/a', '.*', '/a', 'd/*'])
    return p, ex


def gen_flags(R, P, prob: float = 0.3) -> int:
    fl = 0
    for n in PUBLIC:
        if R.random() < prob:
            fl |= getattr(P, n)
    return fl


def is_absolute_spec(W, pats, exclude, fl: int) -> bool:
    """Is some pattern of the request absolute (POSIX rule: starts with '/') once the list layer
    (SPLIT / BRACE expansion, the NEGATE prefix) has been peeled off?  The list layer is C07's
    subject; here it is used as given (`_wcparse.expand`, `is_negative`)."""
    base = (fl & W.FLAG_MASK) | W.PATHNAME | W.FORCEUNIX
    plist = [pats] if isinstance(pats, str) else list(pats)
    elist = [] if exclude is None else ([exclude] if isinstance(exclude, str) else list(exclude))
    if elist:
        base = W.no_negate_flags(base)
    for group, neg in ((plist, False), (elist, True)):
        for p in group:
            for e in W.expand(p, base, 1000):
                if not neg and W.is_negative(e, base):
                    e = e[1:]
                if e.startswith('/'):
                    return True
    return False


# ------------------------------------------------------------------- recording proxy (K8)

class GlobProxy:
    """stands in for the `glob` module inside wcmatch.pathlib and records the calls made"""

    def __init__(self, G):
        self._G = G
        self.calls: list[tuple] = []

    def iglob(self, patterns, *, flags=0, root_dir=None, dir_fd=None, limit=1000, exclude=None):
        self.calls.append(('iglob', flags, root_dir, patterns, limit, exclude))
        return self._G.iglob(patterns, flags=flags, root_dir=root_dir, dir_fd=dir_fd, limit=limit, exclude=exclude)

    def globmatch(self, filename, patterns, *, flags=0, root_dir=None, dir_fd=None, limit=1000, exclude=None):
        self.calls.append(('globmatch', flags, filename, patterns, limit, exclude))
        return self._G.globmatch(filename, patterns, flags=flags, root_dir=root_dir, dir_fd=dir_fd, limit=limit,
                                 exclude=exclude)

    def __getattr__(self, k):
        return getattr(self._G, k)


class recording:
    def __init__(self, G, P, host_nt: bool = False):
        self.G, self.P, self.host_nt = G, P, host_nt

    def __enter__(self) -> GlobProxy:
        self.saved = (self.P.glob, self.P.os)
        self.proxy = GlobProxy(self.G)
        self.P.glob = self.proxy
        if self.host_nt:
            self.P.os = types.SimpleNamespace(name='nt')
        return self.proxy

    def __exit__(self, *exc):
        self.P.glob, self.P.os = self.saved
        return False


class ScanBudget(BaseException):
    """raised by the wrapped os.scandir when a call walks far more directories than the generated
    tree has (an absolute pattern that was not refused is walking the real file system)"""


SCAN_BUDGET = 3000


def outcome(thunk):
    """('ok', value) | ('err', ExceptionName) | ('timeout', None) | ('scan-budget', None)"""
    real_scandir = os.scandir
    n = [0]

    def scandir(path='.'):
        n[0] += 1
        if n[0] > SCAN_BUDGET:
            raise ScanBudget()
        return real_scandir(path)
    os.scandir = scandir
    try:
        with common.time_limit(5):
            return ('ok', thunk())
    except common.CallTimeout:
        return ('timeout', None)
    except ScanBudget:
        return ('scan-budget', None)
    except Exception as e:  # noqa: BLE001
        return ('err', type(e).__name__)
    finally:
        os.scandir = real_scandir


# ---------------------------------------------------------------- K8: _translate_flags

def k8_translate_flags(sr, drv, P, words: list[int]) -> None:
    """real `_translate_flags` of PurePosixPath / PureWindowsPath / PosixPath, on this host and with
    `os.name` presented as 'nt' to the method, vs the Lean `translateFlags`"""
    objs = [(0, P.PurePosixPath('a')), (1, P.PureWindowsPath('a')), (2, P.Path('a'))]
    lines = []
    real = []
    for hw in (0, 1):
        saved = P.os
        if hw:
            P.os = types.SimpleNamespace(name='nt')
        try:
            for code, o in objs:
                if code == 2 and hw:
                    continue        # a PosixPath cannot exist on an 'nt' host (Path.__new__ refuses)
                f = o._translate_flags
                for w in words:
                    lines.append(f'pl_tf {hw} {code} {w}')
                    try:
                        real.append(f'ok {f(w)}')
                    except ValueError as e:
                        real.append('err ValueError:' + ('windows-forced-posix' if 'Windows pathlike' in str(e)
                                                         else 'posix-forced-windows'))
        finally:
            P.os = saved
    outs = drv.ask_many(lines)
    for ln, r, o in zip(lines, real, outs):
        sr.evaluations += 1
        k = r.split(' ')[0] + (':' + ln.split(' ')[2])
        sr.histogram[k] = sr.histogram.get(k, 0) + 1
        if r != o:
            sr.disagree({'stream': 'K8-translate-flags', 'request': ln, 'code': r, 'model': o})
    sr.distinct += len(set(words))
    if words and len(sr.samples) < 3:
        sr.samples.append({'request': lines[len(lines) // 2], 'reply': outs[len(lines) // 2]})


# ------------------------------------------------------------- K8: _pathlib_norm / _format_path

def k8_norm(sr, drv, G, strings: list[str]) -> None:
    g = G.Glob('x', flags=G._PATHLIB)
    lines, real = [], []
    posix_re = G._RE_PATHLIB_DOT_NORM[0]
    win_re = G._RE_WIN_PATHLIB_DOT_NORM[0]
    for s in strings:
        # the live instance against the model configured as the code is (`c` = codeReWin: the POSIX
        # regex on this host since the D16 repair; it was the Windows one on every host)
        lines.append(f'pl_norm c 0 {common.enc(s)}')
        real.append('ok ' + common.enc(g._pathlib_norm(s)))
        # each regex on its own (same tail rule, `seps = ('/',)`)
        for code, rx in ((0, posix_re), (1, win_re)):
            t = rx.sub('', s)
            t = t[:-1] if len(t) > 1 and t[-1:] in ('/',) else t
            lines.append(f'pl_norm {code} 0 {common.enc(s)}')
            real.append('ok ' + common.enc(t))
    outs = drv.ask_many(lines)
    changed = 0
    for ln, r, o in zip(lines, real, outs):
        sr.evaluations += 1
        if r != o:
            sr.disagree({'stream': 'K8-norm', 'request': ln, 'code': r, 'model': o})
        if r.split(' ')[1] != ln.split(' ')[3]:
            changed += 1
    sr.histogram['norm:changed-the-string'] = sr.histogram.get('norm:changed-the-string', 0) + changed
    sr.histogram['norm:unchanged'] = sr.histogram.get('norm:unchanged', 0) + len(lines) - changed
    sr.distinct += len(set(strings))


def k8_format(sr, drv, G, R, n: int, tmp: str) -> None:
    """`Glob._format_path` driven directly with random candidate streams (the walker is not involved)
    vs the Lean `formatPaths` configured with the instance's own fields"""
    alpha = ['a', 'A', 'b', '.', '/', '\\', './', '/.', 'a/', '\n']
    lines, real = [], []
    for _ in range(n):
        fl = G._PATHLIB if R.random() < 0.7 else 0
        for f, p in ((G.NOUNIQUE, 0.2), (G.IGNORECASE, 0.3), (G.MARK, 0.3), (G.SCANDOTDIR, 0.2)):
            if R.random() < p:
                fl |= f
        pats = ['x'] if R.random() < 0.5 else ['x', 'y']
        g = G.Glob(pats, flags=fl, root_dir=tmp)
        cands = []
        for _k in range(R.randint(1, 7)):
            s = ''.join(R.choice(alpha) for _ in range(R.randint(1, 5)))
            if cands and R.random() < 0.3:
                s = R.choice(cands)[0]
            cands.append((s, R.random() < 0.5, R.random() < 0.3))
        hdr = f'pl_fmt {int(g.nounique)} {int(g.case_sensitive)} {int(g.pathlib)} {int(g.mark)} c 0'
        lines.append(hdr + ''.join(f' {common.enc(s)} {int(d)} {int(o)}' for s, d, o in cands))
        out = []
        for s, d, o in cands:
            out.extend(g._format_path(s, d, o))
        real.append('ok' + ''.join(' ' + common.enc(x) for x in out))
        k = f'pathlib={int(g.pathlib)} nounique={int(g.nounique)} cs={int(g.case_sensitive)} dropped={len(cands) - len(out)}'
        sr.histogram[k] = sr.histogram.get(k, 0) + 1
    outs = drv.ask_many(lines)
    for ln, r, o in zip(lines, real, outs):
        sr.evaluations += 1
        if r != o:
            sr.disagree({'stream': 'K8-format', 'request': ln, 'code': r, 'model': o})
    sr.distinct += len(set(lines))
    if lines and len(sr.samples) < 3:
        sr.samples.append({'request': lines[0], 'reply': outs[0]})


# ------------------------------------------------------------------- K8: the calls made

def model_call(drv, method: str, host_nt: bool, cls: str, is_dir: bool, fl: int, name: str) -> str:
    return drv.ask('pl_call', method, int(host_nt), CLS_CODE[cls], int(is_dir), fl, common.enc(name))


def k8_call(sr, drv, G, P, obj, cls: str, method: str, pats, fl: int, exclude, is_dir: bool) -> tuple:
    """run one real method under the recording proxy; compare the call it made with the model's.
    Returns the real outcome."""
    with recording(G, P) as px:
        if method in ('glob', 'rglob'):
            res = outcome(lambda: list(getattr(obj, method)(pats, flags=fl, exclude=exclude)))
        else:
            res = outcome(lambda: getattr(obj, method)(pats, flags=fl, exclude=exclude))
        calls = list(px.calls)
    mo = model_call(drv, method, False, cls, is_dir, fl, str(obj))
    if not calls:
        if res[0] == 'err' and res[1] == 'ValueError':
            code = 'err ValueError'
        elif res[0] == 'ok':
            code = 'empty'
        else:
            code = f'{res[0]} {res[1]}'
        model = 'err ValueError' if mo.startswith('err ValueError') else mo
    else:
        kind, w, arg, cp, _lim, cex = calls[0]
        code = f'call {w} {common.enc(os.fspath(arg))}'
        model = mo
        if cp is not pats or cex is not exclude or len(calls) != 1 or \
                kind != ('iglob' if method in ('glob', 'rglob') else 'globmatch'):
            sr.disagree({'stream': 'K8-calls', 'why': 'patterns/exclude not passed through untouched, or not exactly one call',
                         'method': method, 'calls': repr(calls)[:300]})
    sr.evaluations += 1
    hk = f'{method}:{code.split(" ")[0]}'
    sr.histogram[hk] = sr.histogram.get(hk, 0) + 1
    if code != model:
        sr.disagree({'stream': 'K8-calls', 'class': cls, 'method': method, 'path': str(obj), 'is_dir': is_dir,
                     'flags': fl, 'flag_names': flag_names(P, fl), 'patterns': pats, 'code': code, 'model': model})
    return res, calls


# ------------------------------------------------------------------ known-finding signatures

def _expanded(W, pats, fl) -> list[str]:
    base = (fl & W.FLAG_MASK) | W.PATHNAME | W.FORCEUNIX
    out = []
    for p in ([pats] if isinstance(pats, str) else pats):
        try:
            for e in W.expand(p, base, 1000):
                if W.is_negative(e, base):
                    e = e[1:]
                out.append(e)
        except Exception:  # noqa: BLE001
            out.append(p)
    return out


def _segments(p: str) -> list[str]:
    return [s for s in p.split('/') if s != '']


def _is_gstar(seg: str, gs: bool, gsl: bool) -> bool:
    return (seg == '**' and (gs or gsl)) or (seg == '***' and gsl)


def sig_D6(W, P, pats, fl: int, q: str) -> bool:
    """implicit `**/` prefix followed by a pattern whose first segment is itself `**` / `***`
    (GLOBSTAR / GLOBSTARLONG on), a hidden segment in the path, DOTGLOB off"""
    gs, gsl = bool(fl & P.GLOBSTAR), bool(fl & P.GLOBSTARLONG)
    if fl & P.DOTGLOB or not (gs or gsl):
        return False
    if not any(s.startswith('.') and s not in ('.', '..') for s in q.split('/')):
        return False
    for e in _expanded(W, pats, fl):
        seg = _segments(e)
        if seg and not e.startswith('/') and _is_gstar(seg[0], gs, gsl):
            return True
    return False


def sig_D7(W, P, pats, fl: int, q: str) -> bool:
    """last component of the path is not a directory (typically a link to a file / a dangling
    link, D7; under NODIR|MATCHBASE-like flags also a plain file) and the pattern ends in a
    globstar segment: `_fs_match` lstat-tests the final piece like an inner one"""
    gs, gsl = bool(fl & P.GLOBSTAR), bool(fl & P.GLOBSTARLONG)
    if not (gs or gsl) or not os.path.islink(q) or os.path.isdir(q):
        return False
    for e in _expanded(W, pats, fl):
        seg = _segments(e)
        if seg and _is_gstar(seg[-1], gs, gsl):
            return True
    return False


def sig_D8(W, P, pats, fl: int, q: str) -> bool:
    """pattern ends in globstar + separator; the path is not a directory"""
    gs, gsl = bool(fl & P.GLOBSTAR), bool(fl & P.GLOBSTARLONG)
    if not (gs or gsl) or (os.path.isdir(q)):
        return False
    for e in _expanded(W, pats, fl):
        seg = _segments(e)
        if seg and e.endswith('/') and _is_gstar(seg[-1], gs, gsl):
            return True
    return False


def sig_first_gstar(W, P, pats, fl: int) -> bool:
    """some (expanded, relative) pattern starts with a globstar segment while GLOBSTAR/GLOBSTARLONG is on"""
    gs, gsl = bool(fl & P.GLOBSTAR), bool(fl & P.GLOBSTARLONG)
    if not (gs or gsl):
        return False
    for e in _expanded(W, pats, fl):
        seg = _segments(e)
        if seg and not e.startswith('/') and _is_gstar(seg[0], gs, gsl):
            return True
    return False


def sig_has_gstar_segment(W, P, pats, fl: int) -> bool:
    """some (expanded) pattern has a written globstar segment while GLOBSTAR/GLOBSTARLONG is on (together with the
    implicit `**/` prefix of match() that makes two `**` groups: the trigger of KF-G8; it was KF-G3's too, repaired)"""
    gs, gsl = bool(fl & P.GLOBSTAR), bool(fl & P.GLOBSTARLONG)
    if not (gs or gsl):
        return False
    return any(any(_is_gstar(sg, gs, gsl) for sg in _segments(e)) for e in _expanded(W, pats, fl))


def sig_empty_part(G, W, P, pats, fl: int) -> bool:
    """EXTGLOB on and some segment of some pattern can match the empty string (`*(a)`, `?(a)`, `@(|a)` …):
    the right-anchored regex of `match()` (`_EXTMATCHBASE`) then accepts any name, because the implicit
    `**` swallows the name and the segment matches what is left: nothing.  (The walker's per-part regexes
    were compiled with the flag still set and did the same — G6, repaired.)"""
    if not fl & P.EXTGLOB:
        return False
    gs, gsl = bool(fl & P.GLOBSTAR), bool(fl & P.GLOBSTARLONG)
    for e in _expanded(W, pats, fl):
        for seg in _segments(e):
            if _is_gstar(seg, gs, gsl) or '(' not in seg:
                continue
            try:
                # (globmatch('') short-circuits to False; ask the regex itself)
                pos, _neg = G.translate(seg, flags=P.EXTGLOB | (fl & P.DOTGLOB) | G.FORCEUNIX)
                if any(re.fullmatch(r, '') for r in pos):
                    return True
            except Exception:  # noqa: BLE001
                pass
    return False


def sig_dotseg(W, pats, fl: int) -> bool:
    """some pattern has a `.` segment: glob yields strings like `d/.` or `./a`, `joinpath` normalises
    them to `d` / `a`, so rglob "yields" a path whose own string the pattern does not match"""
    for e in _expanded(W, pats, fl):
        if '.' in e.split('/') or '\\.' in e.split('/'):
            return True
    return False


# ------------------------------------------------------------------------ search pieces

def dedup_paths(xs: list) -> list:
    out = []
    for x in xs:
        if x not in out:
            out.append(x)
    return out


def model_format(drv, names: list[str], nounique: bool) -> list[str]:
    """the Lean `formatPaths` (pathlib key, the regex the code's instance holds: `c`) over an already
    formatted candidate stream"""
    if not names:
        return []
    o = drv.ask(f'pl_fmt {int(nounique)} 1 1 0 c 0' + ''.join(f' {common.enc(s)} 0 0' for s in names))
    f = o.split(' ')
    assert f[0] == 'ok', o
    return [common.dec(x) for x in f[1:]]


class GlobCase:
    """everything about one Path.glob / rglob comparison (kept for replays)"""

    def __init__(self, root, rel, method, pats, fl, exclude, relative_obj):
        self.root, self.rel, self.method, self.pats, self.fl, self.exclude = root, rel, method, pats, fl, exclude
        self.relative_obj = relative_obj

    def inp(self, P, tree) -> dict:
        return {'api': f'Path.{self.method}', 'tree': tree, 'path': self.rel or '.', 'path_object':
                'relative to cwd=tree root' if self.relative_obj else 'absolute', 'patterns': self.pats,
                'exclude': self.exclude, 'flags': self.fl, 'flag_names': flag_names(P, self.fl)}


def rglob_public_equivalent(P, pats, fl: int):
    """`rglob(p)` through the *public* glob API: the same pattern with an explicit leading recursive
    segment.  Possible when the pattern list layer is not involved (single pattern, no
    SPLIT/BRACE/NEGATE), the pattern is relative and non-empty:
      * GLOBSTAR/GLOBSTARLONG on     → glob('**/' + p)  ('***/' under GLOBSTARLONG|FOLLOW)
      * neither, and no `**` in p    → glob('**/' + p, GLOBSTAR)
    (glob(p, MATCHBASE) is deliberately not used as the reference: it shared the per-part prefix
    defect — G6, the walker half of KF-PARTPREFIX, repaired — and is the same code path as rglob)
    Returns (pattern, flags) or None."""
    if not isinstance(pats, str) or pats == '' or pats.startswith('/') or pats.startswith('\\'):
        return None
    if (fl & P.SPLIT and '|' in pats) or (fl & P.BRACE and '{' in pats) or (fl & P.NEGATE and pats.startswith('!')):
        return None
    gs, gsl = bool(fl & P.GLOBSTAR), bool(fl & P.GLOBSTARLONG)
    star = '***/' if (gsl and fl & P.FOLLOW) else '**/'
    if gs or gsl:
        return star + pats, fl
    if '**' not in pats:
        return '**/' + pats, fl | P.GLOBSTAR      # adding GLOBSTAR cannot change the meaning of p
    return None

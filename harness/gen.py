"""Input generators shared by the checks.  Every random choice comes from a
`random.Random` derived from VERIF_SEED (common.rng)."""
from __future__ import annotations
import itertools

SIGMA_P = 'ab.*?[]!()|+@\\/-^:A'      # pattern alphabet (metacharacters + a few literals)
SIGMA_N = 'abA./\\\n-'                # name alphabet

TOKENS = ['a', 'b', 'A', '.', '..', '*', '**', '***', '?', '[', ']', '!', '^', '-', '(', ')', '|', '+', '@',
          '\\', '/', '//', ':', '[:alpha:]', '[:digit:]', '[[:upper:]]', '[a-z]', '[!a]', '[z-a]', '[]a]', '[a-]',
          '!(', '@(', '*(', '+(', '?(', '\\.', '\\/', '\\\\', '&', '~', ' ', '\n', '\xe9', '{', '}', ',', '#', '$',
          'a|b', '@(a|b)', '!(a)', '*(a|.b)', '+(?)', '?(*)', '**/', '/**', '.a', 'a.b']
WIN_TOKENS = ['c:', 'C:/', '//', '\\\\\\\\', 'unc', 'UNC', 'global', '?', 'host', 'sh', '\\c:']


def exhaustive(alphabet: str, maxlen: int, minlen: int = 0):
    for L in range(minlen, maxlen + 1):
        for t in itertools.product(alphabet, repeat=L):
            yield ''.join(t)


def random_pattern(R, maxtok: int = 8, win: bool = False) -> str:
    toks = TOKENS + (WIN_TOKENS if win else [])
    p = ''.join(R.choice(toks) for _ in range(R.randint(1, maxtok)))
    if win and R.random() < 0.3:
        p = R.choice(['//', '\\\\\\\\', 'c:/', 'c:']) + p
    return p


# ---- grammar-guided patterns (well-formed by construction) ---------------------------------

def gen_atom(R, depth: int, ext: bool) -> str:
    r = R.random()
    if r < 0.30:
        return R.choice(['a', 'b', 'A', '.', 'ab', '\\*', '\\?', '-'])
    if r < 0.45:
        return '*'
    if r < 0.55:
        return '?'
    if r < 0.70:
        return R.choice(['[ab]', '[!a]', '[a-c]', '[[:alpha:]]', '[^[:digit:]]', '[]a]', '[a-]', '[.]', '[!.]', '[A-Z]'])
    if ext and depth > 0:
        kind = R.choice('?*+@!')
        n = R.randint(1, 3)
        alts = [gen_seq(R, depth - 1, ext, R.randint(0, 2)) for _ in range(n)]
        return kind + '(' + '|'.join(alts) + ')'
    return R.choice(['a', 'b', '.'])


def gen_seq(R, depth: int, ext: bool, n: int) -> str:
    return ''.join(gen_atom(R, depth, ext) for _ in range(n))


def gen_segment(R, ext: bool, globstar: bool) -> str:
    if globstar and R.random() < 0.25:
        return R.choice(['**', '**', '***'])
    return gen_seq(R, 2, ext, R.randint(1, 3))


def gen_path_pattern(R, ext: bool = True, globstar: bool = True) -> str:
    n = R.randint(1, 4)
    segs = [gen_segment(R, ext, globstar) for _ in range(n)]
    sep = lambda: '/' if R.random() < 0.9 else '//'  # noqa: E731
    p = segs[0]
    for s in segs[1:]:
        p += sep() + s
    if R.random() < 0.15:
        p = '/' + p
    if R.random() < 0.2:
        p += '/'
    return p


def mutate(R, p: str) -> str:
    """token-level mutation: delete / duplicate / swap a character"""
    if not p:
        return p
    k = R.randrange(len(p))
    r = R.random()
    if r < 0.4:
        return p[:k] + p[k + 1:]
    if r < 0.7:
        return p[:k] + p[k] + p[k:]
    j = R.randrange(len(p))
    q = list(p)
    q[k], q[j] = q[j], q[k]
    return ''.join(q)


def names_upto(alphabet: str, maxlen: int) -> list[str]:
    return list(exhaustive(alphabet, maxlen))


def random_flags(R, bits: list[int], prob: float = 0.3, base: int = 0) -> int:
    fl = base
    for b in bits:
        if R.random() < prob:
            fl |= b
    return fl


BRACKET_TOKS = ['a', '-', '[:alpha:]', '[:digit:]', '!', 'x', 'z', '[', ']', '^', '\\', '/', '.', '&', '~', '|', '#', '(?#)']


def bracket_patterns(maxtok: int = 4):
    """every bracket expression whose body is a sequence of <= maxtok tokens of BRACKET_TOKS
    (ranges, reversed ranges, POSIX classes as range ends, negations, odd first members)"""
    for L in range(1, maxtok + 1):
        for t in itertools.product(BRACKET_TOKS, repeat=L):
            yield '[' + ''.join(t) + ']'


ESC_RANGE_TOKS = ['a', '0', '-', '\\z', '\\-', '[:alpha:]', '\\b', ']']


def bracket_escape_patterns(maxtok: int = 6, ntoks: int = 6):
    """bracket bodies built from members spelled as escapes, hyphens and POSIX classes: the range
    bookkeeping of `_sequence` (escape_hyphen / end_range) with range ends that are two characters
    long (defect D29 lived at `X-\\Y-ZW`)"""
    toks = ESC_RANGE_TOKS[:ntoks]
    for L in range(2, maxtok + 1):
        for t in itertools.product(toks, repeat=L):
            if '-' in t and any(x.startswith('\\') for x in t):
                yield '[' + ''.join(t) + ']'
                if L <= 4:
                    yield '[!' + ''.join(t) + ']'


def random_bracket(R, maxtok: int = 7) -> str:
    return '[' + ''.join(R.choice(BRACKET_TOKS) for _ in range(R.randint(1, maxtok))) + ']'


# Parser-state coverage: WcParse carries state across tokens (after_start, in_list, inv_nest,
# inv_ext, match_dot_dir, matchbase); enumerate short sequences of *tokens*, not characters.
STATE_TOKS = ['a', '.', '/', '*', '**', '?', '[a]', '@(.a)', '!(b)', '?(x)', '*(.|a)', '+(a)', '@(a|.b)', '!(.)', '\\.', '..',
              '|', '(', ')', '!(a|*(b))', '[!z-a]', '[z-a]', '\\/', '***']


def token_sequences(maxlen: int, toks=None):
    toks = toks or STATE_TOKS
    for L in range(1, maxlen + 1):
        for t in itertools.product(toks, repeat=L):
            yield ''.join(t)


WIN_PREFIXES = ['//?/', '//./', '//', '\\\\\\\\?\\\\', 'c:', 'C:/', '']
WIN_COMPS = ['GLOBAL', 'global', 'UNC', 'unc', 'h', 's*', 'c:', 'x', 'a[b]c', 'd!e', '?', '.']


def win_drive_patterns(maxcomp: int = 4):
    """drive / UNC / device shapes: prefix + up to maxcomp components"""
    for pre in WIN_PREFIXES:
        for L in range(0, maxcomp + 1):
            for t in itertools.product(WIN_COMPS, repeat=L):
                yield pre + '/'.join(t)

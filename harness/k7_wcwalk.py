"""Stream K7: `wcmatch.wcmatch.WcMatch` vs the Lean walk model (`Model/WcWalk.lean`).

* real trees are generated under a temp directory (hidden files / directories, symlinked files and
  directories, dangling links, links to ancestors, nested same-named folders);
* the abstraction handed to the model is computed by QUERYING THE OS (os.scandir order,
  is_symlink, is_dir following links, exists), never from the generator's intent;
* the pattern decisions handed to the model come from an INDEPENDENT formulation through the public
  API as the property states it (`fnmatch.fnmatch(name, …)` for base-name mode,
  `glob.globmatch(relpath, …)` for FILEPATHNAME / DIRPATHNAME), not from WcMatch's compiled matchers;
* the real side is a subclass of WcMatch that overrides the public `is_aborted()` (oracle and/or
  recorder) and the `on_*` hooks (recorders, scripted raisers / killers).
"""
from __future__ import annotations
import os
import shutil
import sys
import tempfile
import threading

import common
from common import enc

NAMES = ['a', 'b', 'A', '.h', 'a.b', 'ab', 'c', '.hd', 'skipme', 'a\n', 'B.txt', 'x\\', '(a)', '(a)b']
MAX_NODES = 160


class Cyclic(Exception):
    """following directory links does not terminate on this tree (or the unfolding is too big)"""


# ------------------------------------------------------------------ real trees

def build_tree(R, root: str, max_entries: int = 12, allow_cycle: bool = True) -> None:
    """create a random tree below the (existing, empty) directory `root`"""
    dirs = ['']
    files: list[str] = []
    links: list[tuple[str, str]] = []
    used = set()
    n = R.randint(0, max_entries)
    for _ in range(n):
        parent = R.choice(dirs)
        if parent.count('/') >= 3 and parent:
            parent = R.choice(dirs[:3])
        name = R.choice(NAMES if R.random() < 0.85 else NAMES[:3])
        rel = (parent + '/' + name) if parent else name
        if rel in used:
            continue
        used.add(rel)
        kind = R.choices(['file', 'dir', 'lfile', 'ldir', 'dangling'], weights=[5, 4, 1, 1.6, 0.7])[0]
        if kind == 'file':
            open(os.path.join(root, rel), 'w').close()
            files.append(rel)
        elif kind == 'dir':
            os.mkdir(os.path.join(root, rel))
            dirs.append(rel)
        else:
            links.append((rel, kind))
    for rel, kind in links:
        path = os.path.join(root, rel)
        if kind == 'lfile' and files:
            os.symlink(os.path.join(root, R.choice(files)), path)
        elif kind == 'ldir':
            cands = dirs if allow_cycle else [d for d in dirs if d and not (rel + '/').startswith(d + '/')]
            if not cands:
                os.symlink(os.path.join(root, 'nowhere'), path)
                continue
            tgt = R.choice(cands)
            if R.random() < 0.5:
                os.symlink(os.path.join(root, tgt), path)
            else:
                os.symlink(os.path.relpath(os.path.join(root, tgt), os.path.dirname(path)), path)
        else:
            os.symlink(os.path.join(root, 'nowhere', 'x'), path)


def build_fixed(root: str, spec: dict) -> None:
    """`spec`: name -> None (file) | dict (directory) | ('link', target relative to root)"""
    later = []

    def rec(d, sp):
        for name, v in sp.items():
            p = os.path.join(d, name)
            if v is None:
                open(p, 'w').close()
            elif isinstance(v, dict):
                os.mkdir(p)
                rec(p, v)
            else:
                later.append((p, v[1]))
    rec(root, spec)
    for p, tgt in later:
        os.symlink(os.path.join(root, tgt), p)


def build_from_abstract(root: str, tree: list, outside: str) -> None:
    """re-create a tree from its abstraction (replays): links point to fresh files / directories under
    `outside` (a directory next to the root) that hold the recorded target content"""
    counter = [0]

    def rec(d, es):
        for name, kind, sub in es:
            p = os.path.join(d, name)
            if kind == 'f':
                open(p, 'w').close()
            elif kind == 'd':
                os.mkdir(p)
                rec(p, sub)
            elif kind == 'x':
                os.symlink(os.path.join(outside, 'nowhere', 'x'), p)
            else:
                counter[0] += 1
                tgt = os.path.join(outside, f't{counter[0]}')
                if kind == 'l':
                    open(tgt, 'w').close()
                else:
                    os.mkdir(tgt)
                    rec(tgt, sub)
                os.symlink(tgt, p)
    os.makedirs(outside, exist_ok=True)
    rec(root, tree)


# ------------------------------------------------------------------ abstraction (by querying the OS)

def abstract(path: str, follow: bool, stack: tuple = (), budget: list | None = None) -> list:
    """entries of `path` in scandir order: (name, kind, sub) with kind in f d l L x"""
    if budget is None:
        budget = [MAX_NODES]
    if not stack:
        stack = (os.path.realpath(path),)
    out = []
    with os.scandir(path) as it:
        entries = list(it)
    for e in entries:
        budget[0] -= 1
        if budget[0] < 0:
            raise Cyclic()
        link = e.is_symlink()
        try:
            isdir = e.is_dir()
        except OSError:
            isdir = False
        if isdir:
            if link and not follow:
                out.append((e.name, 'L', []))
                continue
            rp = os.path.realpath(e.path)
            if rp in stack:
                raise Cyclic()
            out.append((e.name, 'L' if link else 'd', abstract(e.path, follow, stack + (rp,), budget)))
        elif link:
            out.append((e.name, 'l' if os.path.exists(e.path) else 'x', []))
        else:
            out.append((e.name, 'f', []))
    return out


def enc_tree(t: list) -> str:
    toks: list[str] = []

    def rec(es):
        for name, kind, sub in es:
            toks.append(kind + enc(name))
            if kind in 'dL':
                toks.append('(')
                rec(sub)
                toks.append(')')
    rec(t)
    return ','.join(toks) if toks else '-'


def all_paths(t: list):
    """(files, dirs): lists of (rel_components, name) for every non-directory / directory-like entry"""
    files, dirs = [], []

    def rec(es, rel):
        for name, kind, sub in es:
            if kind in 'dL':
                dirs.append((rel, name))
                rec(sub, rel + [name])
            else:
                files.append((rel, name))
    rec(t, [])
    return files, dirs


def count_nodes(t: list) -> int:
    return sum(1 + count_nodes(sub) for _n, _k, sub in t)


# ------------------------------------------------------------------ patterns

FILE_BODIES = ['*', '*', '*.b', 'a*', '?', '[ab]*', '.*', '**', '**/a', 'a/*', '*/b', 'a/**', '@(a|b)', '{a,b}*',
               'A*', '*.txt', '.h*', '+(a)', '!(a)', '*\n', 'a', 'b', '*/*', '**/*.b', 'a/a', '[!a]*', 'a|b', '*b*',
               '**/.h', 'skipme/*', '?(a)b', '*(a|b)', 'x\\\\', '(a)*', '(a)']
DIR_BODIES = ['skipme', 'a', 'b', '.*', '*', 'a/a', '**/a', 'a/*', '*/b', '@(a|b)', '{a,ab}', 'A', '[ab]', '**',
              'a/**', '.hd', 'skip*', '*/skipme', '?', 'a.b', '!(a)', '(a)', '(a)*']


class Pat:
    """a pattern as a list of alternatives (negated?, anchored by a leading '/', body)"""

    def __init__(self, alts: list[tuple[bool, bool, str]]):
        self.alts = alts

    def text(self, minus: bool) -> str:
        return '|'.join((('-' if minus else '!') if neg else '') + ('/' if anc else '') + body
                        for neg, anc, body in self.alts)

    @property
    def anchored(self) -> bool:
        return any(a for _n, a, _b in self.alts)


def gen_pat(R, bodies: list[str], empty_prob: float = 0.08) -> Pat:
    if R.random() < empty_prob:
        return Pat([])
    n = R.choice([1, 1, 1, 2, 2, 3])
    alts = []
    for k in range(n):
        body = R.choice(bodies)
        neg = R.random() < 0.25
        simple = not any(c in body for c in '|{}') and body[0] not in '!-'
        alts.append((neg, False, body, simple))
    if all(a[3] for a in alts) and R.random() < 0.25:
        alts = [(n_, R.random() < 0.6, b, s) for n_, _a, b, s in alts]
    return Pat([(n_, a, b) for n_, a, b, _s in alts])


class RawPat:
    """a pattern given as its text (pattern-only cases: no oracle needs its structure)"""

    def __init__(self, text: str):
        self._text = text
        self.alts = [(False, False, text)] if text else []

    def text(self, minus: bool) -> str:
        return self._text

    anchored = False


P_BODIES = FILE_BODIES + DIR_BODIES + [
    '{a,b}', '{a,ab}*', '{a,b,c}{,.b}', '{a,b}/{a,b}', 'a{b', '{}', '{,}', '{a..c}', '**/*', '*/', '**/', 'a/', '/', '', '', 'a//a',
    '\\a', '\\*', '[[:alpha:]]*', '[[:upper:]]', '[!.]*', '[.]*', '[]a]', '[a-', '!', '-', '!a', '-a', '(a)b', '!(a)b', '-(a)',
    '@(a|!(b))', '*(.)h*', '+(a|.h)', '?(.)h', '.', '..', '.*/*', '*/.*', '**/.h*', 'SKIPME', 'a.B', '[A-Z]*', 'b.TXT',
    '\\x61*', '\\141', '\\N{LATIN SMALL LETTER A}', '\\N{NO SUCH NAME}', '\\u0061b', '\\x2e*', '\\/a', 'a\\/a', '*\n']
P_PREFIX = ['', '', '', '', '!', '-', '/', '/', '!/', '-/', '//', '!!', '\\!', '\\-']


def gen_wild(R, empty_prob: float = 0.08) -> RawPat:
    """pattern texts for K7-patterns: `|`-joined alternatives with `!` / `-` / `/` prefixes in any combination, braces,
    brackets, extended groups, escapes, RAWCHARS spellings — no oracle has to understand them"""
    if R.random() < empty_prob:
        return RawPat('')
    n = R.choice([1, 1, 1, 2, 2, 3, 4])
    return RawPat('|'.join(R.choice(P_PREFIX) + R.choice(P_BODIES) for _ in range(n)))


def gen_flags_wild(R, WM, cyclic: bool) -> int:
    fl = gen_flags(R, WM, cyclic)
    if R.random() < 0.25:
        fl |= WM.RAWCHARS
    if R.random() < 0.04:
        fl |= R.choice([1 << 5, 1 << 6, 1 << 10, 1 << 13 | 1 << 5, 1 << 14, 1 << 16, 1 << 17, 1 << 33, (1 << 40) - 1 & ~WM.SYMLINKS])
    return fl


def pattern_fields(flags: int, fpt: str, xpt: str, isb: bool) -> str:
    """the `B:` (bracex expansion of the normalised pattern) and `N:` (unicodedata.lookup) fields of `wcwalkp` / `wcspecp`"""
    common.import_wcmatch()
    from wcmatch import _wcparse as W, util, wcmatch as WM
    import k3_norm
    import k4_lists
    out = []
    pats = [p for p in (fpt, xpt) if p]
    if flags & WM.BRACE:
        done = set()
        for p in pats:
            pp = p.encode('latin-1') if isb else p
            try:
                q = util.norm_pattern(pp, False, bool(flags & WM.RAWCHARS))     # POSIX host, no FORCEWIN: not normalised
            except Exception:  # noqa: BLE001
                continue
            if q in done:
                continue
            done.add(q)
            try:
                cnt, items = k4_lists.brace_info(q)
            except Exception:  # noqa: BLE001   (`expand_braces`: any other bracex exception yields the pattern itself)
                cnt, items = 1, [q]
            out.append('B:' + enc(q) + f':{cnt}:' + ('?' if items is None else (','.join(enc(i) for i in items) if items else '-')))
    if flags & WM.RAWCHARS:
        for p in pats:
            lf = k3_norm.lookup_fields(p).replace('name:', 'N:').strip()
            if lf:
                out.append(lf)
    return (' ' + ' '.join(out)) if out else ''


class Decider:
    """The pattern decisions through the public API, as the property states them."""

    def __init__(self, flags: int):
        common.import_wcmatch()
        from wcmatch import fnmatch as F, glob as G, wcmatch as WM
        self.F, self.G, self.WM = F, G, WM
        self.flags = flags
        self.minus = bool(flags & WM.MINUSNEGATE)
        fn = F.NEGATE | F.DOTMATCH | F.NEGATEALL | F.SPLIT
        gl = G.NEGATE | G.DOTGLOB | G.NEGATEALL | G.SPLIT
        for wm, f, g in ((WM.EXTMATCH, F.EXTMATCH, G.EXTGLOB), (WM.BRACE, F.BRACE, G.BRACE),
                         (WM.MINUSNEGATE, F.MINUSNEGATE, G.MINUSNEGATE), (WM.CASE, F.CASE, G.CASE),
                         (WM.IGNORECASE, F.IGNORECASE, G.IGNORECASE), (WM.RAWCHARS, F.RAWCHARS, G.RAWCHARS)):
            if flags & wm:
                fn |= f
                gl |= g
        if flags & WM.GLOBSTAR:
            gl |= G.GLOBSTAR
        self.fn = fn
        self.gl = gl
        self.gl_mb = gl | (G.MATCHBASE if flags & WM.MATCHBASE else 0)

    def _list(self, pat: Pat, one) -> bool:
        """the list semantics written out: some inclusion and no exclusion (only exclusions = everything except), every
        alternative decided on its own by `one(body, anchored)` WITHOUT the negation flags — so that the recognition of the
        `!` / `-` prefix itself is part of what is checked (added after seeded change C14f: `-(` under MINUSNEGATE|EXTMATCH)"""
        ext = bool(self.flags & self.WM.EXTMATCH)
        pos = neg = any_pos = False
        for n_, anc, body in pat.alts:
            if n_ and not anc and not self.minus and ext and body.startswith('('):
                n_, body = False, '!' + body        # `!(` under EXTMATCH opens an extended group: documented, not a negation
            m = one(body, anc)
            if n_:
                neg = neg or m
            else:
                any_pos = True
                pos = pos or m
        if not any_pos:
            pos = True
        return pos and not neg

    def _decomposable(self, pat: Pat) -> bool:
        # bodies that SPLIT / BRACE would cut further (the prefix then belongs to the first piece only) stay with the API
        return all(b and b[0] not in '!-' and not any(c in b for c in '|{}') for _n, _a, b in pat.alts)

    def _path(self, path: str, pat: Pat) -> bool:
        G = self.G
        if not pat.anchored and not self._decomposable(pat):
            return bool(G.globmatch(path, pat.text(self.minus), flags=self.gl_mb))
        # a leading '/' anchors the alternative to the root: the slash is stripped and MATCHBASE does not apply to it
        plain = self.gl & ~(G.NEGATE | G.NEGATEALL)
        return self._list(pat, lambda body, anc: bool(G.globmatch(
            path, body, flags=plain | (G.MATCHBASE if (self.flags & self.WM.MATCHBASE and not anc) else 0))))

    def _name(self, name: str, pat: Pat) -> bool:
        F = self.F
        if not self._decomposable(pat):
            return bool(F.fnmatch(name, pat.text(self.minus), flags=self.fn))
        return self._list(pat, lambda body, anc: bool(F.fnmatch(name, ('/' if anc else '') + body, flags=self.fn & ~(F.NEGATE | F.NEGATEALL))))

    def file(self, pat: Pat, pathname: bool, rel: list[str], name: str) -> bool:
        """does the file pattern select this file (pattern not empty)"""
        if pathname:
            return self._path('/'.join(rel + [name]), pat)
        return self._name(name, pat)

    def excl(self, pat: Pat, pathname: bool, rel: list[str], name: str) -> bool:
        """does the exclude pattern accept this directory (pattern not empty)"""
        if pathname:
            return self._path('/'.join(rel + [name]) + '/', pat)
        return self._name(name, pat)


def key_of(pathname: bool, rel: list[str], name: str) -> str:
    return '/'.join(rel + [name]) if pathname else name


def tables(dec: Decider, t: list, fpat: Pat, xpat: Pat, cmp_file_raise=(), cmp_dir_raise=()):
    """(ftab, dtab) strings for the driver, from the public-API decisions on every entry of the tree"""
    WM = dec.WM
    fpn = bool(dec.flags & WM.FILEPATHNAME)
    dpn = bool(dec.flags & WM.DIRPATHNAME)
    files, dirs = all_paths(t)
    ft: dict[str, str] = {}
    dt: dict[str, str] = {}
    if fpat.alts:
        for rel, name in files:
            k = key_of(fpn, rel, name)
            if k not in ft:
                ft[k] = '1' if dec.file(fpat, fpn, rel, name) else '0'
    if xpat.alts:
        for rel, name in dirs:
            k = key_of(dpn, rel, name)
            if k not in dt:
                dt[k] = '1' if dec.excl(xpat, dpn, rel, name) else '0'
    for k in cmp_file_raise:
        ft[k] = 'r'
    for k in cmp_dir_raise:
        dt[k] = 'r'

    def s(d):
        return ','.join(f'{enc(k)}={v}' for k, v in d.items()) if d else '-'
    return s(ft), s(dt)


# ------------------------------------------------------------------ the recording subclass

class Script:
    """what the hooks of one object do, and the log of what happened"""

    def __init__(self, root: str, oracle=None, dir_raise=(), dir_false=(), file_raise=(), file_false=(),
                 skip_val=(), err_val=(), skip_all=False, err_all=False, cmp_file_raise=(), cmp_dir_raise=(),
                 kill_at=None, hook_raise=None, reset_at=()):
        self.root = root.rstrip('/') + '/'
        self.oracle = oracle                 # None: the real flag
        self.dir_raise, self.dir_false = set(dir_raise), set(dir_false)
        self.file_raise, self.file_false = set(file_raise), set(file_false)
        self.skip_val, self.err_val = set(skip_val), set(err_val)
        self.skip_all, self.err_all = skip_all, err_all
        self.cmp_file_raise, self.cmp_dir_raise = set(cmp_file_raise), set(cmp_dir_raise)
        self.kill_at = kill_at               # the k-th hook invocation of a run calls kill()
        self.reset_at = set(reset_at)        # these hook invocations of a run call reset() (non-monotone histories)
        self.hook_raise = hook_raise         # (kind, key): on_match / on_skip / on_error raises there (not modelled)
        self.log: list[str] = []
        self.polls = self.hooks = self.yields = 0

    def driver_script(self) -> str:
        items = [f'dr:{enc(k)}' for k in sorted(self.dir_raise)] + [f'df:{enc(k)}' for k in sorted(self.dir_false)] + \
                [f'fr:{enc(k)}' for k in sorted(self.file_raise)] + [f'ff:{enc(k)}' for k in sorted(self.file_false)] + \
                [f'sk:{enc(k)}' for k in sorted(self.skip_val)] + [f'er:{enc(k)}' for k in sorted(self.err_val)]
        if self.skip_all:
            items.append('SK')
        if self.err_all:
            items.append('ER')
        return ','.join(items) if items else '-'


class HookBoom(Exception):
    pass


_REC = None


def rec_class():
    global _REC
    if _REC is not None:
        return _REC
    common.import_wcmatch()
    from wcmatch import wcmatch as WM

    class Rec(WM.WcMatch):
        def on_init(self, k7=None):
            self.k7 = k7
            if getattr(k7, 'kill_in_init', False):
                self.kill()         # "before it starts", from the one hook that runs outside a run

        def _rel(self, base, name):
            return os.path.join(base, name)[len(self.k7.root):]

        def _hook(self, tag, rel):
            s = self.k7
            s.hooks += 1
            s.log.append(tag + (enc(rel) if rel is not None else ''))
            if s.kill_at is not None and s.kill_at == s.hooks:
                self.kill()
            if s.reset_at and s.hooks in s.reset_at:
                self.reset()

        def is_aborted(self):
            s = self.k7
            b = bool(s.oracle(s)) if s.oracle is not None else super().is_aborted()
            s.polls += 1
            s.log.append('P1' if b else 'P0')
            return b

        def on_reset(self):
            s = self.k7
            s.polls = s.hooks = s.yields = 0
            self._hook('R', None)

        def compare_file(self, filename):
            if filename in self.k7.cmp_file_raise:
                raise HookBoom('compare_file')
            return super().compare_file(filename)

        def compare_directory(self, directory):
            if directory in self.k7.cmp_dir_raise:
                raise HookBoom('compare_directory')
            return super().compare_directory(directory)

        def on_validate_directory(self, base, name):
            rel = self._rel(base, name)
            self._hook('D', rel)
            if rel in self.k7.dir_raise:
                raise HookBoom('vd')
            return rel not in self.k7.dir_false

        def on_validate_file(self, base, name):
            rel = self._rel(base, name)
            self._hook('F', rel)
            if rel in self.k7.file_raise:
                raise HookBoom('vf')
            return rel not in self.k7.file_false

        def on_match(self, base, name):
            rel = self._rel(base, name)
            self._hook('M', rel)
            if self.k7.hook_raise == ('M', rel):
                raise HookBoom('on_match')
            return _hv('m', rel)

        def on_skip(self, base, name):
            rel = self._rel(base, name)
            self._hook('S', rel)
            if self.k7.hook_raise == ('S', rel):
                raise HookBoom('on_skip')
            return _hv('s', rel) if (self.k7.skip_all or rel in self.k7.skip_val) else None

        def on_error(self, base, name):
            rel = self._rel(base, name)
            self._hook('E', rel)
            if self.k7.hook_raise == ('E', rel):
                raise HookBoom('on_error')
            return _hv('e', rel) if (self.k7.err_all or rel in self.k7.err_val) else None

    _REC = Rec
    return Rec


class FalsyTuple(tuple):
    """a hook value that is falsy but not None: must be passed through unchanged (C15: the code tests `is not None`;
    added after seeded change C15d, which truth-tested the on_error value)"""
    def __bool__(self) -> bool:
        return False


def _hv(kind: str, rel: str):
    return FalsyTuple((kind, rel)) if len(rel) % 2 == 0 else (kind, rel)


def yv(v) -> str:
    return 'Y' + v[0] + enc(v[1])


# oracle atoms: the same language as the driver's
def oracle_fn(spec: str):
    atoms = []
    for a in spec.split('|'):
        if a == '0':
            atoms.append(lambda s: False)
        elif a[0] in 'phy':
            k = int(a[1:])
            atoms.append({'p': (lambda s, k=k: s.polls >= k), 'h': (lambda s, k=k: s.hooks >= k),
                          'y': (lambda s, k=k: s.yields >= k)}[a[0]])
        elif a[0] in 'bB':
            bits = [c == '1' for c in a[1:]]
            atoms.append(lambda s, bits=bits, d=(a[0] == 'B'): bits[s.polls] if s.polls < len(bits) else d)
        elif a[0] == 's':
            bits = [c == '1' for c in a[1:]]
            atoms.append(lambda s, bits=bits: bits[s.yields] if s.yields < len(bits) else True)
        else:
            raise ValueError(a)
    return lambda s: any(f(s) for f in atoms)


class Case:
    """one tree + configuration: everything needed to run the real code and the model"""

    def __init__(self, root: str, flags: int, fpat: Pat, xpat: Pat, cmp_file_raise=(), cmp_dir_raise=(),
                 with_tables: bool = True, isb: bool = False, limit: int | None = None):
        common.import_wcmatch()
        from wcmatch import wcmatch as WM
        self.WM = WM
        self.root = root
        self.flags = flags
        self.fpat, self.xpat = fpat, xpat
        self.cmp_file_raise, self.cmp_dir_raise = tuple(cmp_file_raise), tuple(cmp_dir_raise)
        self.follow = bool(flags & WM.SYMLINKS)
        self.tree = abstract(root, self.follow)          # raises Cyclic
        self.dec = Decider(flags)
        self.minus = self.dec.minus
        self.isb, self.limit = isb, limit                # bytes root + bytes patterns; `limit=` (None: the default)
        if with_tables:
            self.ftab, self.dtab = tables(self.dec, self.tree, fpat, xpat, cmp_file_raise, cmp_dir_raise)
        else:
            self.ftab = self.dtab = None                 # pattern-only case (K7-patterns): no oracle involved
        self.ee = ('1' if not fpat.alts else '0') + ('1' if not xpat.alts else '0')
        self.tree_s = enc_tree(self.tree)

    def describe(self) -> dict:
        d = {'tree': self.tree_s, 'tree_readable': repr(self.tree), 'flags': self.flags,
             'flag_names': flag_names(self.WM, self.flags),
             'file_pattern': self.fpat.text(self.minus), 'exclude_pattern': self.xpat.text(self.minus),
             'cmp_file_raise': list(self.cmp_file_raise), 'cmp_dir_raise': list(self.cmp_dir_raise)}
        if self.isb:
            d['bytes'] = True
        if self.limit is not None:
            d['limit'] = self.limit
        return d

    # ---- the pattern-level commands (`wcwalkp` / `wcspecp`): the two pattern strings instead of the tables
    def _p_head(self) -> str:
        fpt, xpt = self.fpat.text(self.minus), self.xpat.text(self.minus)
        lim = 1000 if self.limit is None else self.limit
        return f'{self.flags} {int(self.isb)} {lim} {enc(fpt)} {enc(xpt)} {self.tree_s}'

    def model_line_p(self, script: Script | None, oracle: str) -> str:
        sc = script.driver_script() if script is not None else '-'
        return f'wcwalkp {self._p_head()} {sc} {oracle}{pattern_fields(self.flags, self.fpat.text(self.minus), self.xpat.text(self.minus), self.isb)}'

    def spec_line_p(self) -> str:
        return f'wcspecp {self._p_head()}{pattern_fields(self.flags, self.fpat.text(self.minus), self.xpat.text(self.minus), self.isb)}'

    def model_line(self, script: Script | None, oracle: str) -> str:
        sc = script.driver_script() if script is not None else '-'
        return f'wcwalk {self.flags} {self.ee} {self.tree_s} {self.ftab} {self.dtab} {sc} {oracle}'

    def ops_line(self, script: Script | None, ops: list[str]) -> str:
        sc = script.driver_script() if script is not None else '-'
        return f'wcops {self.flags} {self.ee} {self.tree_s} {self.ftab} {self.dtab} {sc} {",".join(ops)}'

    def spec_line(self) -> str:
        return f'wcspec {self.flags} {self.ee} {self.tree_s} {self.ftab} {self.dtab}'

    def new_script(self, **kw) -> Script:
        return Script(self.root, cmp_file_raise=self.cmp_file_raise, cmp_dir_raise=self.cmp_dir_raise, **kw)

    def obj(self, script: Script):
        fpt, xpt = self.fpat.text(self.minus), self.xpat.text(self.minus)
        kw = {} if self.limit is None else {'limit': self.limit}
        if self.isb:
            return rec_class()(os.fsencode(self.root), fpt.encode('latin-1'), xpt.encode('latin-1'), self.flags, k7=script, **kw)
        return rec_class()(self.root, fpt, xpt, self.flags, k7=script, **kw)

    def real_run_p(self, script: Script) -> str:
        """`real_run`, with the exceptions of the constructor (pattern compilation) in the driver's `err <kind>` format"""
        from wcmatch import _wcparse as W
        try:
            return self.real_run(script)
        except W.PatternLimitException:
            return 'err PatternLimit'
        except SyntaxError:
            return 'err SyntaxError'
        except KeyError:
            return 'err KeyError'

    def real_run(self, script: Script) -> str:
        """one imatch() run consumed to the end: the event sequence + K<skipped>, in the driver's format"""
        o = self.obj(script)
        with common.time_limit(20):
            for v in o.imatch():
                script.yields += 1
                script.log.append(yv(v))
        return ' '.join(script.log + [f'K{o.get_skipped()}'])

    def real_ops(self, script: Script, ops: list[str]) -> str:
        """an op sequence on one object (real abort flag), observations in the driver's format"""
        o = self.obj(script)
        gen = None
        out = []
        for op in ops:
            script.log = []
            if op[0] == 'm':
                script.kill_at = int(op[2:]) if op.startswith('m@') else None
                with common.time_limit(20):
                    res = o.match()
                script.kill_at = None
                # match() hands the values over at the end: re-insert them after their hook call
                out.append('L ' + ' '.join(_interleave(script.log, res)))
            elif op == 'i':
                if gen is not None:
                    gen.close()
                gen = o.imatch()
                out.append('u')
            elif op == 'n':
                if gen is None:
                    out.append('G')
                    continue
                try:
                    with common.time_limit(20):
                        v = next(gen)
                    out.append(('V ' + ' '.join(script.log + [yv(v)])))
                except StopIteration:
                    out.append('X ' + ' '.join(script.log))
            elif op == 'k':
                o.kill()
                out.append('u')
            elif op == 'r':
                o.reset()
                out.append('u')
            elif op == 'a':
                out.append('b1' if self.WM.WcMatch.is_aborted(o) else 'b0')
            elif op == 's':
                out.append(f'n{o.get_skipped()}')
            else:
                raise ValueError(op)
        if gen is not None:
            gen.close()
        return ' | '.join(out)


def _interleave(log: list[str], res: list) -> list[str]:
    """put `Y` events behind the hook call that produced them (values carry their tag and path)"""
    out = []
    pending = list(res)
    for ev in log:
        out.append(ev)
        if ev[0] in 'MSE' and pending:
            tag = {'M': 'm', 'S': 's', 'E': 'e'}[ev[0]]
            v = pending[0]
            if v[0] == tag and enc(v[1]) == ev[1:]:
                out.append(yv(v))
                pending.pop(0)
    out.extend('Y?' + repr(v) for v in pending)   # unexplained values: make the diff visible
    return out


def flag_names(WM, flags: int) -> list[str]:
    return [n for n in ('RECURSIVE', 'HIDDEN', 'SYMLINKS', 'FILEPATHNAME', 'DIRPATHNAME', 'MATCHBASE', 'GLOBSTAR',
                        'EXTMATCH', 'BRACE', 'MINUSNEGATE', 'IGNORECASE', 'CASE', 'RAWCHARS') if flags & getattr(WM, n)]


def gen_flags(R, WM, cyclic: bool) -> int:
    fl = 0
    if R.random() < 0.75:
        fl |= WM.RECURSIVE
    for b, p in ((WM.HIDDEN, 0.4), (WM.SYMLINKS, 0.4), (WM.FILEPATHNAME, 0.4), (WM.DIRPATHNAME, 0.4),
                 (WM.MATCHBASE, 0.3), (WM.GLOBSTAR, 0.4), (WM.EXTMATCH, 0.4), (WM.BRACE, 0.3), (WM.MINUSNEGATE, 0.2),
                 (WM.IGNORECASE, 0.25), (WM.CASE, 0.15)):
        if R.random() < p:
            fl |= b
    if cyclic:
        fl &= ~WM.SYMLINKS
    return fl


def is_cyclic(root: str) -> bool:
    try:
        abstract(root, True)
        return False
    except Cyclic:
        return True


class TempTree:
    def __init__(self, R=None, spec: dict | None = None, max_entries: int = 12, allow_cycle: bool = True):
        self.R, self.spec, self.max_entries, self.allow_cycle = R, spec, max_entries, allow_cycle

    def __enter__(self) -> str:
        self.dir = tempfile.mkdtemp(prefix='k7-', dir='/tmp')
        self.root = os.path.join(self.dir, 'root')
        os.mkdir(self.root)
        if self.spec is not None:
            build_fixed(self.root, self.spec)
        else:
            build_tree(self.R, self.root, self.max_entries, self.allow_cycle)
        return self.root

    def __exit__(self, *exc):
        shutil.rmtree(self.dir, ignore_errors=True)
        return False


# ------------------------------------------------------------------ the specification in Python (search)

def spec_walk(root: str, WM, flags: int, fsel, dexcl) -> tuple[list[str], int]:
    """The filtered directory walk of C14 computed directly from os.scandir and the public-API
    decisions: (selected files as root-relative paths in walk order, number of visited files)."""
    rec_, hid, sl = bool(flags & WM.RECURSIVE), bool(flags & WM.HIDDEN), bool(flags & WM.SYMLINKS)
    out: list[str] = []
    visited = [0]

    def walk(d: str, rel: list[str]):
        with os.scandir(d) as it:
            ents = list(it)
        dirs, files = [], []
        for e in ents:
            try:
                isdir = e.is_dir()
            except OSError:
                isdir = False
            (dirs if isdir else files).append(e)
        for e in files:
            visited[0] += 1
            if fsel(rel, e.name) and (hid or not e.name.startswith('.')):
                out.append('/'.join(rel + [e.name]))
        for e in dirs:
            if rec_ and not dexcl(rel, e.name) and (hid or not e.name.startswith('.')) and (sl or not e.is_symlink()):
                walk(e.path, rel + [e.name])
    walk(root, [])
    return out, visited[0]


def kill_thread_run(case: Case, delay_steps: int) -> tuple[str, list[bool]]:
    """run the real code while a second thread calls kill(); returns (events, observed poll values)"""
    script = case.new_script()
    o = case.obj(script)
    go = threading.Event()

    def killer():
        go.wait()
        for _ in range(delay_steps):
            pass
        o.kill()
    th = threading.Thread(target=killer)
    old = sys.getswitchinterval()
    sys.setswitchinterval(1e-6)
    try:
        th.start()
        go.set()
        with common.time_limit(20):
            for v in o.imatch():
                script.yields += 1
                script.log.append(yv(v))
        th.join()
    finally:
        sys.setswitchinterval(old)
    polls = [e == 'P1' for e in script.log if e[0] == 'P']
    return ' '.join(script.log + [f'K{o.get_skipped()}']), polls

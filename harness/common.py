"""Shared machinery for the checks: paths, seeded RNG, the Lean driver process, the lake
build / audit step, evidence writing, violation reporting and known findings."""
from __future__ import annotations
import fcntl
import hashlib
import json
import os
import random
import re
import subprocess
import sys
import time

VERIF = os.path.dirname(os.path.dirname(os.path.abspath(__file__)))
REPO = os.environ.get('WCMATCH_REPO', '/repo')
LEAN = os.path.join(VERIF, 'lean')
DRIVER = os.path.join(LEAN, '.lake', 'build', 'bin', 'wcdriver')
EVIDENCE = os.path.join(VERIF, 'evidence')
REPLAYS = os.path.join(VERIF, 'replays')
PY = '/venv/bin/python'

ALLOWED_AXIOMS = {'propext', 'Classical.choice', 'Quot.sound'}
TRUSTED_BASE = [
    "Lean 4.33.0 kernel (thorough tier: re-checked by leanchecker)",
    "axioms allowed: propext, Classical.choice, Quot.sound (audited with #print axioms on every run; no native_decide, no bv_decide, no sorry)",
    "tools/extract.py (translator for constants/tables/defaults) and the correspondence harness under harness/",
    "Re.M as the meaning of CPython's re on the emitted fragment (ASCII-only case folding; validated by stream K2, not proved)",
    "bracex, os.path.expanduser, unicodedata.lookup, os.scandir/lstat/walk, functools.lru_cache, pickle: modelled as parameters or abstract trees",
]


def seed() -> int:
    try:
        return int(os.environ.get('VERIF_SEED', '0'))
    except ValueError:
        return 0


def rng(tag: str = '') -> random.Random:
    return random.Random(f'{seed()}:{tag}')


def import_wcmatch():
    """Import wcmatch from the working tree of /repo (fresh)."""
    if sys.path[0] != REPO:
        sys.path.insert(0, REPO)
    import wcmatch  # noqa: F401
    from wcmatch import _wcparse, fnmatch, glob, wcmatch as wcm, pathlib as wpathlib, util  # noqa: F401
    assert os.path.realpath(os.path.dirname(wcmatch.__file__)) == os.path.realpath(os.path.join(REPO, 'wcmatch')), \
        f'wcmatch imported from {wcmatch.__file__}, expected {REPO}'
    return wcmatch


# ---------------------------------------------------------------- protocol encoding

def enc(s) -> str:
    if isinstance(s, bytes):
        s = s.decode('latin-1')
    return 'x' + '.'.join('%x' % ord(c) for c in s)


def dec(t: str) -> str:
    assert t[0] == 'x', t
    if len(t) == 1:
        return ''
    return ''.join(chr(int(h, 16)) for h in t[1:].split('.'))


class Driver:
    """The native Lean model driver, one request per line."""

    def __init__(self) -> None:
        self.p = subprocess.Popen([DRIVER], stdin=subprocess.PIPE, stdout=subprocess.PIPE, text=True, bufsize=1 << 20)
        self.n = 0

    def ask(self, *fields) -> str:
        line = ' '.join(str(f) for f in fields)
        if os.environ.get('VERIF_DRIVER_LOG'):
            with open(os.environ['VERIF_DRIVER_LOG'], 'w') as fh:
                fh.write(line + '\n')
        self.p.stdin.write(line + '\n')
        self.p.stdin.flush()
        self.n += 1
        # the model is total but some walks (FOLLOW / `***` on trees with several links to ancestors) are exponential in
        # the fuel: a reply that does not come within the limit is 'timeout' (never a verdict); the driver is restarted
        import select
        limit = float(os.environ.get('VERIF_DRIVER_TIMEOUT', '45'))
        ready, _, _ = select.select([self.p.stdout], [], [], limit)
        if not ready:
            self.p.kill()
            self.p.wait()
            self.p = subprocess.Popen([DRIVER], stdin=subprocess.PIPE, stdout=subprocess.PIPE, text=True, bufsize=1 << 20)
            self.timeouts = getattr(self, 'timeouts', 0) + 1
            return 'timeout'
        out = self.p.stdout.readline()
        if not out:
            raise RuntimeError(f'driver died on: {line}')
        return out.rstrip('\n')

    def ask_many(self, lines: list[str]) -> list[str]:
        """Run a batch through a fresh driver process (stdin all at once, stdout collected)."""
        if not lines:
            return []
        r = subprocess.run([DRIVER], input='\n'.join(lines) + '\n', capture_output=True, text=True)
        out = r.stdout.split('\n')
        if out and out[-1] == '':
            out.pop()
        if r.returncode != 0 or len(out) != len(lines):
            raise RuntimeError(f'driver batch failed: rc={r.returncode} got {len(out)} of {len(lines)} replies: {r.stderr[:300]}')
        self.n += len(lines)
        return out

    def close(self) -> None:
        try:
            self.p.stdin.close()
            self.p.wait(timeout=10)
        except Exception:
            self.p.kill()


# ---------------------------------------------------------------- build + audit

class BuildResult:
    def __init__(self) -> None:
        self.ok = True
        self.log = ''
        self.failed_modules: list[str] = []
        self.extract_changed = False
        self.wall = 0.0


def lake_build(targets: list[str]) -> BuildResult:
    """extract.py → Generated.lean, then `lake build` of the given targets, under a lock
    shared by all checks (they may run in parallel)."""
    res = BuildResult()
    t0 = time.time()
    os.makedirs(os.path.join(LEAN, '.lake'), exist_ok=True)
    with open(os.path.join(LEAN, '.lake', 'verif.lock'), 'w') as lk:
        fcntl.flock(lk, fcntl.LOCK_EX)
        ex = subprocess.run([PY, os.path.join(VERIF, 'tools', 'extract.py')], capture_output=True, text=True,
                            env={**os.environ, 'WCMATCH_REPO': REPO})
        res.log += ex.stdout + ex.stderr
        if ex.returncode != 0:
            res.ok = False
            res.failed_modules.append('tools/extract.py')
            res.wall = time.time() - t0
            return res
        res.extract_changed = 'rewritten' in ex.stdout
        b = subprocess.run(['lake', 'build'] + targets, cwd=LEAN, capture_output=True, text=True)
        res.log += b.stdout + b.stderr
        if b.returncode != 0:
            res.ok = False
            for m in re.finditer(r'^- (\S+)', b.stdout + b.stderr, re.M):
                res.failed_modules.append(m.group(1))
            for m in re.finditer(r'error: (WcModel/\S+\.lean):(\d+):(\d+)', b.stdout + b.stderr):
                res.failed_modules.append(f'{m.group(1)}:{m.group(2)}')
    res.wall = time.time() - t0
    return res


def audit(prop: str) -> tuple[bool, list[dict], str]:
    """Run Audit/<prop>.lean: `#print axioms` for every property theorem.  Returns
    (ok, [{theorem, axioms}], log)."""
    path = os.path.join(LEAN, 'Audit', f'{prop}.lean')
    r = subprocess.run(['lake', 'env', 'lean', path], cwd=LEAN, capture_output=True, text=True)
    out = r.stdout + r.stderr
    thms: list[dict] = []
    ok = r.returncode == 0
    # "'Foo.bar' depends on axioms: [propext, Quot.sound]"  |  "'Foo.bar' does not depend on any axioms"
    # (a theorem name may itself end in primes: `'Foo.bar'' depends on …`)
    for m in re.finditer(r"'([^'\s]+'*)' (?:depends on axioms: \[([^\]]*)\]|does not depend on any axioms)", out, re.S):
        axs = [a.strip() for a in (m.group(2) or '').replace('\n', ' ').split(',') if a.strip()]
        thms.append({'theorem': m.group(1), 'axioms': axs})
        if not set(axs) <= ALLOWED_AXIOMS:
            ok = False
    if not thms:
        ok = False
    return ok, thms, out


FORBIDDEN = re.compile(r'\b(sorry|admit|native_decide|bv_decide|implemented_by|unsafe)\b|^\s*axiom\s|maxHeartbeats\s+0')


def grep_forbidden() -> list[str]:
    """Scan the Lean sources (outside comments) for forbidden constructs."""
    hits: list[str] = []
    for root, _dirs, files in os.walk(os.path.join(LEAN, 'WcModel')):
        for f in files:
            if not f.endswith('.lean'):
                continue
            p = os.path.join(root, f)
            text = open(p, encoding='utf-8').read()
            # strip block comments and line comments
            text = re.sub(r'/-.*?-/', lambda m: '\n' * m.group(0).count('\n'), text, flags=re.S)
            for k, line in enumerate(text.split('\n'), 1):
                line = line.split('--', 1)[0]
                if FORBIDDEN.search(line):
                    hits.append(f'{os.path.relpath(p, VERIF)}:{k}: {line.strip()}')
    return hits


# ---------------------------------------------------------------- evidence / violations

def known_findings(prop: str) -> list[dict]:
    p = os.path.join(VERIF, 'known_findings.json')
    if not os.path.exists(p):
        return []
    data = json.load(open(p))
    return [e for e in data.get('findings', []) if e.get('property') == prop]


def write_replay(prop: str, payload: dict) -> str:
    os.makedirs(REPLAYS, exist_ok=True)
    h = hashlib.sha1(json.dumps(payload, sort_keys=True, default=str).encode()).hexdigest()[:12]
    path = os.path.join(REPLAYS, f'{prop}-{h}.json')
    with open(path, 'w') as f:
        json.dump(payload, f, indent=1, sort_keys=True, default=str)
    return path


def write_evidence(prop: str, tier: str, level: str, coverage: dict, wall: float, violations: int,
                   assumptions: list[str] | None = None) -> None:
    os.makedirs(EVIDENCE, exist_ok=True)
    ev = {
        'property_id': prop,
        'tier': tier,
        'seed': seed(),
        'level': level,
        'coverage': coverage,
        'assumptions': assumptions or [],
        'wall_s': round(wall, 2),
        'violations': violations,
    }
    with open(os.path.join(EVIDENCE, f'{prop}.json'), 'w') as f:
        json.dump(ev, f, indent=1, default=str)


class CallTimeout(BaseException):
    """raised by `time_limit` (BaseException so that library code does not swallow it)"""


class time_limit:
    """`with time_limit(2): …` — wall-clock guard for one call into the real code (regex
    back-tracking blow-ups, runaway directory walks).  A timeout is never a verdict."""

    def __init__(self, sec: int):
        self.sec = sec

    def __enter__(self):
        import signal

        def h(*_a):
            raise CallTimeout()
        self.old = signal.signal(signal.SIGALRM, h)
        signal.alarm(self.sec)
        return self

    def __exit__(self, *exc):
        import signal
        signal.alarm(0)
        signal.signal(signal.SIGALRM, self.old)
        return False

"""Correspondence streams shared by several properties.

K1  WcParse(p, flags).parse()  vs  render (WcParse.parse ctx p)      — regex TEXT equality
K2  re.compile(text).fullmatch(name)  vs  Re.fullmatch on the model AST — bool per name
"""
from __future__ import annotations
import re
import warnings
import common

warnings.simplefilter('ignore')


def _w():
    common.import_wcmatch()
    from wcmatch import _wcparse
    return _wcparse


def reachable(fl: int) -> int:
    """Restrict an internal flag word to what the public APIs can produce: MATCHBASE /
    _EXTMATCHBASE reach WcParse only together with PATHNAME (fnmatch masks them out, glob and
    pathlib force PATHNAME, WcMatch adds MATCHBASE only in its path modes)."""
    W = _w()
    if not fl & W.PATHNAME:
        fl &= ~(W.MATCHBASE | W._EXTMATCHBASE)
    return fl


def py_parse(p, fl: int, isb: bool) -> str:
    W = _w()
    try:
        r = W.WcParse(p.encode('latin-1') if isb else p, fl).parse()
        return 'ok ' + (r.decode('latin-1') if isb else r)
    except ValueError:
        return 'err ValueError'
    except Exception as e:  # anything else is itself a finding for C10; keep the kind
        return 'exc ' + type(e).__name__


def k1(sr, drv: common.Driver, cases: list[tuple[str, int, bool]], keep: int = 3) -> None:
    """cases: (pattern as str (latin-1 for bytes), internal flags, isBytes)."""
    outs = drv.ask_many([f'parse {fl} {int(isb)} {common.enc(p)}' for p, fl, isb in cases])
    seen = set()
    for (p, fl, isb), o in zip(cases, outs):
        sr.evaluations += 1
        key = (p, fl, isb)
        if key not in seen:
            seen.add(key)
        py = py_parse(p, fl, isb)
        f = o.split(' ')
        mo = 'ok ' + common.dec(f[1]) if f[0] == 'ok' else o
        kind = 'err' if py.startswith('err') else ('exc' if py.startswith('exc') else 'ok')
        sr.histogram[kind] = sr.histogram.get(kind, 0) + 1
        if py != mo:
            sr.disagree({'stream': 'K1', 'pattern': p, 'flags': fl, 'bytes': isb, 'code': py, 'model': mo})
        elif len(sr.samples) < keep and len(p) > 2:
            sr.samples.append({'pattern': p, 'flags': hex(fl), 'bytes': isb, 'regex': py[3:]})
    sr.distinct += len(seen)


def k2(sr, drv: common.Driver, cases: list[tuple[str, int, bool]], names: list[str], keep: int = 3) -> None:
    """fullmatch of every name against the code's regex (compiled by `re`) and the model's AST."""
    W = _w()
    encn = ' '.join(common.enc(n) for n in names)
    outs = drv.ask_many([f'match {fl} {int(isb)} {common.enc(p)} {encn}' for p, fl, isb in cases])
    acc = rej = 0
    for (p, fl, isb), o in zip(cases, outs):
        try:
            text = W.WcParse(p.encode('latin-1') if isb else p, fl).parse()
        except ValueError:
            py = 'err ValueError'
            text = None
        if text is not None:
            try:
                rx = re.compile(text)
                if isb:
                    py = 'ok ' + ''.join('1' if rx.fullmatch(n.encode('latin-1')) else '0' for n in names)
                else:
                    py = 'ok ' + ''.join('1' if rx.fullmatch(n) else '0' for n in names)
            except re.error:
                py = 'err ReError'
        sr.evaluations += len(names)
        if py.startswith('ok'):
            a = py.count('1')
            acc += a
            rej += len(names) - a
        if py != o:
            d = {'stream': 'K2', 'pattern': p, 'flags': fl, 'bytes': isb}
            if py.startswith('ok') and o.startswith('ok'):
                for n, x, y in zip(names, py[3:], o[3:]):
                    if x != y:
                        d.update({'name': n, 'code': x, 'model': y})
                        break
            else:
                d.update({'code': py[:40], 'model': o[:40]})
            sr.disagree(d)
        elif len(sr.samples) < keep and len(p) > 2 and py.startswith('ok') and '1' in py:
            sr.samples.append({'pattern': p, 'flags': hex(fl), 'accepted': [n for n, x in zip(names, py[3:]) if x == '1'][:5]})
    sr.distinct += len({c for c in cases})
    sr.histogram['accepted'] = sr.histogram.get('accepted', 0) + acc
    sr.histogram['rejected'] = sr.histogram.get('rejected', 0) + rej


def k2cap(sr, drv: common.Driver, cases: list[tuple[str, int, bool]], names: list[str], keep: int = 3) -> None:
    """capture SPANS: `re.fullmatch(text, name).regs` of the code's regex vs `Re.fullmatchCap` of the model's AST (driver command
    `recap`) — the tie of the capture matcher that C04/C06 (`_fs_match` reads the `**` groups) and C08 (captured text) rest on."""
    W = _w()
    encn = ' '.join(common.enc(n) for n in names)
    outs = drv.ask_many([f'recap {fl} {int(isb)} {common.enc(p)} {encn}' for p, fl, isb in cases])
    for (p, fl, isb), o in zip(cases, outs):
        try:
            text = W.WcParse(p.encode('latin-1') if isb else p, fl).parse()
        except ValueError:
            text = None
            py = 'err ValueError'
        if text is not None:
            try:
                rx = re.compile(text)
                outs_ = []
                for n in names:
                    m = rx.fullmatch(n.encode('latin-1') if isb else n)
                    if m is None:
                        outs_.append('-')
                    else:
                        outs_.append('m' + ','.join('n' if a == -1 else f'{a}-{b}' for a, b in m.regs[1:]))
                py = 'ok ' + ';'.join(outs_)
            except re.error:
                py = 'err ReError'
        sr.evaluations += len(names)

        def canon(reply: str) -> str:
            # ONE canonicalisation: a group bound to an EMPTY span and a group that did not take part are the same observation.  Whether
            # `sre` leaves a binding behind when a repeated body matched the empty string in an abandoned / final iteration is an artefact
            # of its loop protection that the capture model does not reproduce (thorough tier, unchanged tree: `+(!(|[!a]\*|)||@(*|a)*)`
            # on `...` — code `0-0`, model `n`); nothing the theorems use distinguishes the two (`_fs_match` skips an empty group text as
            # it skips a missing one; `translate_capture_text` is about the text of a span, and the empty text is matched by both readings)
            if not reply.startswith('ok '):
                return reply
            out = []
            for piece in reply[3:].split(';'):
                if len(piece) > 1 and piece[0] == 'm':
                    gs = ['n' if (g != 'n' and g.split('-')[0] == g.split('-')[1]) else g for g in piece[1:].split(',')]
                    piece = 'm' + ','.join(gs)
                out.append(piece)
            return 'ok ' + ';'.join(out)
        if canon(py) != canon(o):
            d = {'stream': 'K2cap', 'pattern': p, 'flags': fl, 'bytes': isb}
            if py.startswith('ok') and o.startswith('ok'):
                for n, x, y in zip(names, py[3:].split(';'), o[3:].split(';')):
                    if x != y:
                        d.update({'name': n, 'code_spans': x, 'model_spans': y})
                        break
            else:
                d.update({'code': py[:60], 'model': o[:60]})
            sr.disagree(d)
        else:
            if py.startswith('ok'):
                k = sum(1 for x in py[3:].split(';') if len(x) > 1)
                sr.histogram['matches with at least one group'] = sr.histogram.get('matches with at least one group', 0) + k
            if len(sr.samples) < keep and py.startswith('ok') and any(len(x) > 3 for x in py[3:].split(';')):
                j = next(i for i, x in enumerate(py[3:].split(';')) if len(x) > 3)
                sr.samples.append({'pattern': p, 'flags': hex(fl), 'name': names[j], 'spans': py[3:].split(';')[j]})
    sr.distinct += len({c for c in cases})
